"""A4 — may-throw summaries.  Per function the set of exception classes that may escape it:
explicit throws, std members that throw by contract (closed table), and callees' summaries, minus
what an enclosing handler catches without rethrowing.  operator new is excluded by assumption."""
from facts import CALL_KINDS

STD_THROWERS = {
    ('std::vector', 'at'): 'std::out_of_range',
    ('std::basic_string', 'at'): 'std::out_of_range',
    ('std::basic_string', 'substr'): 'std::out_of_range',
    ('std::basic_string', 'erase'): 'std::out_of_range',
    ('std::basic_string', 'insert'): 'std::out_of_range',
    ('std::basic_string', 'replace'): 'std::out_of_range',
}
FREE_THROWERS = {'std::stoi': 'std::invalid_argument', 'std::stol': 'std::invalid_argument', 'std::stoul': 'std::invalid_argument',
                 'std::stof': 'std::invalid_argument', 'std::stod': 'std::invalid_argument'}
BASES = {
    'std::out_of_range': ['std::logic_error', 'std::exception'],
    'std::invalid_argument': ['std::logic_error', 'std::exception'],
    'std::range_error': ['std::runtime_error', 'std::exception'],
    'std::runtime_error': ['std::exception'],
    'std::logic_error': ['std::exception'],
    'std::ios_base::failure': ['std::system_error', 'std::runtime_error', 'std::exception'],
}


def catches(handler, cls):
    if handler.get('catch_all'):
        return True
    t = handler.get('catch_t')
    return t == cls or t in BASES.get(cls, [])


class MayThrow:
    def __init__(self, prog):
        self.prog = prog
        self.sites = {}    # usr -> list of (node id, class, kind) local raise points (before handler filtering)
        self.summary = {u: set() for u in prog.funcs}
        self._try_cache = {}
        changed = True
        it = 0
        while changed and it < 30:
            changed = False
            it += 1
            for u, f in prog.funcs.items():
                s = self._escaping(f)
                if s != self.summary[u]:
                    self.summary[u] = s
                    changed = True

    def handlers_around(self, f, nid):
        """list of handler-node lists (innermost first) of the try statements whose body contains nid"""
        key = f.usr
        if key not in self._try_cache:
            tr = []
            for t in f.all_nodes({'CXXTryStmt'}):
                tr.append((set(f.descendants(t['body'])), [f.nodes[h] for h in t['handlers']], t['id']))
            self._try_cache[key] = tr
        out = [(len(b), hs) for b, hs, _ in self._try_cache[key] if nid in b]
        out.sort(key=lambda x: x[0])
        return [hs for _, hs in out]

    def _inventories(self):
        """positional accessors (usr -> container field) and index-by-name functions (usr -> container
        field) by shape; the discipline itself is verified by C11"""
        if hasattr(self, '_pos'):
            return
        from paths import Renderer
        import re
        self._pos, self._idx = {}, {}
        for f in self.prog.funcs.values():
            if f.implicit or len(f.params) != 1 or f.kind != 'method':
                continue
            R = Renderer(f)
            rets = [r for r in f.all_nodes({'ReturnStmt'}) if r['ch']]
            if f.params[0]['type'] == 'unsigned long' and rets:
                m = [re.match(r'^this\.(\w+)\[arg0\]$', R.render(r['ch'][0])) for r in rets]
                if all(m):
                    self._pos[f.usr] = m[0].group(1)
                else:
                    # through a helper: every return designates an element of one member container
                    from paths import root_of
                    roots = [root_of(f, r['ch'][0]) for r in rets]
                    if all(k_ == 'this' and len(p_) == 2 and p_[1] == '[]' for k_, p_ in roots) and len({p_[0] for _, p_ in roots}) == 1 and \
                            (f.rec['ret'].endswith('&')):
                        self._pos[f.usr] = roots[0][1][0]
            elif 'basic_string' in f.params[0]['type'] and f.rec['ret'] == 'unsigned long':
                from loops import normal_for
                fors = [n for n in f.all_nodes({'ForStmt'})]
                if len(fors) == 1:
                    lf = normal_for(f, fors[0]['id'])
                    if lf:
                        m = re.match(r'^this\.(\w+)\.size$', R.render(lf['bound']))
                        if m:
                            self._idx[f.usr] = m.group(1)
                if f.usr not in self._idx and f.cls in self.prog.classes and f.rec.get('const'):
                    # another spelling of the search: decided on finite models (see C11)
                    for fl in self.prog.classes[f.cls]['fields']:
                        vm = re.match(r'^std::vector<(.*)>$', fl['type'])
                        if vm and any(x['name'] == '_name' for x in self.prog.classes.get(vm.group(1), {}).get('fields', [])):
                            try:
                                import p_c11
                                al_ = {a: c for a, c in (('parameter', '_parameters'), ('group', '_groups'), ('point', '_points'), ('channel', '_channels')) if c == fl['name']}
                                if p_c11.model_index_by_name(f, fl['name'], al_)[0] == 'ok':
                                    self._idx[f.usr] = fl['name']
                            except Exception:
                                pass

    def index_validated(self, f, n):
        """the call n is positional(idx) / by-name(positional(idxfn(name))) whose index cannot be out
        of range: a normal-form loop variable bounded by the same container's size, or the result
        of the index-by-name function of the same object"""
        self._inventories()
        from paths import Renderer
        from loops import normal_for, enclosing_fors
        c = n['callee']
        cont = self._pos.get(c['usr'])
        if cont is None or f.call_obj(n) is None:
            return False
        R = Renderer(f)
        obj = R.render(f.call_obj(n))
        a = f.call_args(n)[0]
        an = f.nodes[f.strip(a, 'all')]
        if an['k'] == 'DeclRefExpr' and an['decl'].get('dk') == 'local':
            for fid in enclosing_fors(f, n['id']):
                lf = normal_for(f, fid)
                if lf and lf['var'] == an['decl']['id'] and lf['op'] == '<' and lf['start_cv'] == '0':
                    b = R.render(lf['bound'])
                    want = '%s.%s.size' % (obj, cont)
                    if b == want:
                        return True
                    import forall
                    g = f.events()
                    cv = g.vertex_of.get(n['id'])
                    for x, y, cid in forall.equalities(f):
                        iv = g.vertex_of.get(cid)
                        if {x, y} == {b, want} and iv is not None and cv is not None and g.dominates(iv, cv):
                            return True
                    # ... or the equality was established by a validating helper (throwing, or reporting a reason that is thrown)
                    try:
                        import indexsites as _IS
                        for l_, op_, r_, _x in _IS.facts_at(f, R, n['id']):
                            if op_ == '==' and {l_, r_} == {b, want}:
                                return True
                    except Exception:
                        pass
            import forall
            if forall.covered(f, n['id'], obj, cont, a):
                return True
            from paths import local_init
            init = local_init(f, an['decl']['id'])
            if init is not None and an['decl']['id'] in R.single_def_locals():
                an = f.nodes[f.strip(init, 'all')]
            elif init is None and self._only_idx_defs(f, an['decl']['id'], obj, cont):
                return True
        if an['k'] == 'CXXMemberCallExpr' and self._idx.get(an['callee']['usr']) == cont and f.call_obj(an) is not None:
            if R.render(f.call_obj(an)) == obj:
                return True
        # the position handed back by a file-local find-or-create helper H(obj, name): every return is the by-name index of
        # the same container of its first argument, or its last position (size - 1) right after an append
        if an['k'] == 'CallExpr' and an.get('callee', {}).get('inrepo'):
            hf = self.prog.funcs.get(an['callee']['usr'])
            args = f.call_args(an)
            if hf is not None and hf.body is not None and (hf.rec.get('internal') or '(anonymous namespace)' in hf.qname) and args:
                import re as _re
                if _re.sub(r'^\*\((.*)\)$', r'\1', R.render(args[0])) == obj:
                    Rh = Renderer(hf)
                    good = True
                    nret = 0
                    for r_ in hf.all_nodes({'ReturnStmt'}):
                        if not r_.get('ch'):
                            continue
                        nret += 1
                        rn = hf.nodes[hf.strip(r_['ch'][0], 'all')]
                        rr = Rh.render(r_['ch'][0])
                        if rn['k'] == 'CXXMemberCallExpr' and self._idx.get(rn['callee']['usr']) == cont and hf.call_obj(rn) is not None and Rh.render(hf.call_obj(rn)) == 'arg0':
                            continue
                        if rr in ('(arg0.%s.size - 1)' % cont, '(arg0.nbGroups() - 1)', '(arg0.nbParameters() - 1)'):
                            # an append to that container comes before on every path to this return
                            g_ = hf.events()
                            rv = g_.vertex_of.get(hf.strip(r_['ch'][0], 'all')) or g_.vertex_of.get(r_['id'])
                            apps = [g_.vertex_of.get(c_['id']) for c_ in hf.calls() if c_['callee'].get('inrepo') and not c_['callee'].get('const') and hf.call_obj(c_) is not None and Rh.render(hf.call_obj(c_)) == 'arg0']
                            if rv is not None and any(a_ is not None and g_.dominates(a_, rv) for a_ in apps):
                                continue
                        good = False
                    if good and nret:
                        return True
        return False

    def _only_idx_defs(self, f, vid, obj, cont):
        """every assignment to the local is a call of the index-by-name function on obj"""
        from paths import Renderer
        R = Renderer(f)
        ok = False
        for n in f.nodes:
            if n['k'] == 'BinaryOperator' and n['op'] == '=':
                t = f.nodes[f.strip(n['ch'][0], 'all')]
                if t['k'] == 'DeclRefExpr' and t['decl'].get('id') == vid:
                    r = f.nodes[f.strip(n['ch'][1], 'all')]
                    if not (r['k'] == 'CXXMemberCallExpr' and self._idx.get(r['callee']['usr']) == cont and R.render(f.call_obj(r)) == obj):
                        return False
                    ok = True
        return ok

    def raised_at(self, f, n):
        """classes that evaluating node n itself may raise (not considering handlers)"""
        k = n['k']
        if k == 'CXXThrowExpr':
            if n.get('rethrow'):
                return {'<rethrow>'}
            return {n.get('throw_t')}
        if k in CALL_KINDS and 'callee' in n:
            c = n['callee']
            if c['usr'] in self.prog.funcs:
                r = set(self.summary.get(c['usr'], ()))
                if 'std::out_of_range' in r and k == 'CXXMemberCallExpr' and self.index_validated(f, n):
                    r.discard('std::out_of_range')
                return r
            key = (c.get('classq'), c['name'])
            if key in STD_THROWERS:
                return {STD_THROWERS[key]}
            if c['qname'] in FREE_THROWERS:
                return {FREE_THROWERS[c['qname']]}
        return set()

    def escapes_from(self, f, nid, classes):
        """subset of `classes` raised at nid that no enclosing handler of f stops"""
        out = set()
        for cls in classes:
            caught = False
            for hs in self.handlers_around(f, nid):
                for h in hs:
                    if cls != '<rethrow>' and catches(h, cls):
                        caught = True
                        break
                if caught:
                    break
            if not caught:
                out.add(cls)
        return out

    def _escaping(self, f):
        out = set()
        for n in f.nodes:
            r = self.raised_at(f, n)
            if not r:
                continue
            if '<rethrow>' in r:
                # rethrow inside a handler: the handler's caught class escapes
                for t in f.all_nodes({'CXXCatchStmt'}):
                    if n['id'] in f.descendants(t['body']):
                        r = (r - {'<rethrow>'}) | {t.get('catch_t') or 'std::exception'}
                r.discard('<rethrow>')
            out |= self.escapes_from(f, n['id'], r)
        return out


_cache = {}


def get(prog):
    if id(prog) not in _cache:
        _cache[id(prog)] = MayThrow(prog)
    return _cache[id(prog)]
