"""Front end of the rule layer: run the extractor over /repo's current sources and load the
facts into a resolved-program model (functions, expression trees, event-level CFGs, classes,
call graph).  Nothing here looks at source text."""
import glob
import hashlib
import json
import re
import os
import subprocess
import sys
import time
from concurrent.futures import ThreadPoolExecutor

VERIF = os.path.dirname(os.path.dirname(os.path.abspath(__file__)))
REPO = os.environ.get('EZC3D_REPO', '/repo')
EXTRACTOR = os.path.join(VERIF, 'tools', 'c3dfacts', 'c3dfacts')
CACHE = os.path.join(VERIF, '.cache')
BASE_FLAGS = ['-I{repo}/include', '-std=gnu++11', '-Dezc3d_EXPORTS', '-UNDEBUG', '-w']


class AnalysisBroken(Exception):
    """The analysis could not be carried out (exit 2, never a violation)."""


def units(repo):
    # CMakeLists.txt: aux_source_directory(src SRC_LIST) == every .cpp under src/
    us = sorted(glob.glob(os.path.join(repo, 'src', '*.cpp')))
    if not us:
        raise AnalysisBroken('no translation units under %s/src' % repo)
    return us


def _tree_hash(repo, flags):
    h = hashlib.sha256()
    files = sorted(glob.glob(os.path.join(repo, 'src', '*')) +
                   glob.glob(os.path.join(repo, 'include', '*')))
    files += [os.path.join(repo, 'CMakeLists.txt'), EXTRACTOR]
    for f in files:
        if os.path.isfile(f):
            h.update(f.encode())
            with open(f, 'rb') as fh:
                h.update(hashlib.sha256(fh.read()).digest())
    h.update(' '.join(flags).encode())
    return h.hexdigest()[:24]


def extract(repo=REPO, extra_flags=(), jobs=16, use_cache=True):
    """-> (list of per-unit fact dicts, info)"""
    if not os.path.exists(EXTRACTOR):
        r = subprocess.run([os.path.join(VERIF, 'tools', 'c3dfacts', 'build.sh')])
        if r.returncode != 0 or not os.path.exists(EXTRACTOR):
            raise AnalysisBroken('extractor is not built (run setup_cmd)')
    flags = [f.format(repo=repo) for f in BASE_FLAGS] + list(extra_flags)
    us = units(repo)
    key = _tree_hash(repo, flags)
    outdir = os.path.join(CACHE, key)
    private = None
    if not use_cache:
        # scratch trees (self-tests, seeded changes): a private directory, removed after loading, so that
        # concurrent runs neither share nor prune each other's files
        import tempfile
        private = outdir = tempfile.mkdtemp(prefix='c3dfacts-')
    info = {'units': us, 'flags': flags, 'cache_key': key, 'cached': False}
    want = [os.path.join(outdir, os.path.basename(u) + '.json') for u in us]
    if use_cache and all(os.path.exists(w) for w in want) and os.path.exists(os.path.join(outdir, 'ok')):
        info['cached'] = True
    else:
        os.makedirs(outdir, exist_ok=True)

        def one(pair):
            u, o = pair
            cmd = [EXTRACTOR, '--root=' + repo, '--out=' + o + '.tmp', u, '--'] + flags
            r = subprocess.run(cmd, stdout=subprocess.PIPE, stderr=subprocess.PIPE, text=True)
            if r.returncode != 0:
                return (u, r.returncode, r.stderr[-2000:])
            os.replace(o + '.tmp', o)
            return (u, 0, '')
        with ThreadPoolExecutor(max_workers=jobs) as ex:
            res = list(ex.map(one, zip(us, want)))
        bad = [r for r in res if r[1] != 0]
        if bad:
            raise AnalysisBroken('unit failed to parse: %s\n%s' % (bad[0][0], bad[0][2]))
        open(os.path.join(outdir, 'ok'), 'w').write('ok')
        if private is None:
            _prune_cache(keep=key)
    data = []
    try:
        for w in want:
            with open(w) as fh:
                d = json.load(fh)
            if d.get('errors'):
                raise AnalysisBroken('unit %s has %d compile errors' % (d['unit'], d['errors']))
            data.append(d)
    finally:
        if private is not None:
            import shutil
            shutil.rmtree(private, ignore_errors=True)
    return data, info


def _prune_cache(keep, maxn=6):
    try:
        ds = [os.path.join(CACHE, d) for d in os.listdir(CACHE)]
        ds = [d for d in ds if os.path.isdir(d) and os.path.basename(d) != keep]
        ds.sort(key=os.path.getmtime)
        import shutil
        for d in ds[:-maxn] if len(ds) > maxn else []:
            shutil.rmtree(d, ignore_errors=True)
    except OSError:
        pass


# ---------------------------------------------------------------------------------------------

NOOP_CASTS = {'LValueToRValue', 'NoOp', 'FunctionToPointerDecay', 'ArrayToPointerDecay',
              'DerivedToBase', 'UncheckedDerivedToBase', 'ConstructorConversion',
              'UserDefinedConversion', 'BuiltinFnToFnPtr', 'ToVoid'}
WRAPPERS = {'ParenExpr', 'ExprWithCleanups', 'MaterializeTemporaryExpr', 'CXXBindTemporaryExpr',
            'ConstantExpr', 'SubstNonTypeTemplateParmExpr', 'CXXDefaultArgExpr'}
CAST_KINDS = {'ImplicitCastExpr', 'CStyleCastExpr', 'CXXStaticCastExpr', 'CXXFunctionalCastExpr',
              'CXXReinterpretCastExpr', 'CXXConstCastExpr', 'CXXDynamicCastExpr'}
CALL_KINDS = {'CallExpr', 'CXXMemberCallExpr', 'CXXOperatorCallExpr', 'CXXConstructExpr',
              'CXXTemporaryObjectExpr'}


class Func:
    def __init__(self, rec, prog):
        self.prog = prog
        self.rec = rec
        self.usr = rec['usr']
        self.qname = rec['qname']
        self.name = rec['name']
        self.kind = rec['kind']
        self.cls = rec.get('class')
        self.file = rec['file']
        self.line = rec['line']
        self.params = rec['params']
        self.nodes = rec['nodes']
        self.body = rec['body']
        self.cfg = rec.get('cfg')
        self.implicit = rec.get('implicit', False)
        self._events = None
        self._desc = {}

    # a printable, overload-distinguishing signature
    @property
    def sig(self):
        s = '%s(%s)' % (self.qname, ', '.join(p['type'] for p in self.params))
        if self.rec.get('const'):
            s += ' const'
        return s

    def loc(self, n=None):
        f = os.path.relpath(self.file, self.prog.repo) if self.file.startswith(self.prog.repo) else self.file
        if n is None:
            return '%s:%d' % (f, self.line)
        return '%s:%d' % (f, self.nodes[n]['line'])

    def N(self, i):
        return self.nodes[i]

    def strip(self, i, casts='noop'):
        """look through parentheses, temporaries and (no-op | all) casts"""
        while True:
            n = self.nodes[i]
            k = n['k']
            if k in WRAPPERS and n['ch']:
                i = n['ch'][0]
                continue
            if k in CAST_KINDS and n['ch']:
                if casts == 'all' or n.get('ck') in NOOP_CASTS:
                    i = n['ch'][0]
                    continue
            # copy/move construction from one argument is a copy of that argument
            if casts == 'all' and k == 'CXXConstructExpr' and len(n.get('args', [])) == 1 and \
                    (n['callee'].get('copy') or n['callee'].get('move')):
                i = n['args'][0]
                continue
            return i

    def descendants(self, i):
        if i in self._desc:
            return self._desc[i]
        out = []
        st = [i]
        while st:
            x = st.pop()
            out.append(x)
            st.extend(self.nodes[x]['ch'])
        self._desc[i] = out
        return out

    def ancestors(self, i):
        p = self.nodes[i]['p']
        while p >= 0:
            yield p
            p = self.nodes[p]['p']

    def all_nodes(self, kinds=None):
        for n in self.nodes:
            if kinds is None or n['k'] in kinds:
                yield n

    def calls(self):
        for n in self.nodes:
            if n['k'] in CALL_KINDS and 'callee' in n:
                yield n

    def call_obj(self, n):
        """node id of the object a member call / member operator call is made on (or None)"""
        if n['k'] == 'CXXMemberCallExpr':
            return n.get('obj')
        if n['k'] == 'CXXOperatorCallExpr' and n['callee'].get('class') and n.get('args'):
            return n['args'][0]
        return None

    def call_args(self, n):
        if n['k'] == 'CXXOperatorCallExpr' and n['callee'].get('class'):
            return n['args'][1:]
        return n.get('args', [])

    # ---- event-level control-flow graph ----------------------------------------------------
    def events(self):
        """Event graph: one vertex per CFG element plus ENTRY, NEXIT (normal exit) and XEXIT
        (exit by uncaught exception).  Returns an EventGraph."""
        if self._events is None:
            self._events = EventGraph(self)
        return self._events


class EventGraph:
    ENTRY, NEXIT, XEXIT = 'ENTRY', 'NEXIT', 'XEXIT'

    def __init__(self, fn):
        self.fn = fn
        cfg = fn.cfg
        if not cfg:
            raise AnalysisBroken('no CFG for ' + fn.sig)
        # a block that branches but has no element of its own (an if whose condition was computed
        # by earlier blocks, e.g. after a temporary-destructor branch) still needs a vertex
        for b in cfg['blocks']:
            if not b['elems'] and len([s for s in b['succs'] if s is not None]) >= 2:
                b['elems'] = [{'k': 'synthetic', 'n': -1}]
        blocks = {b['id']: b for b in cfg['blocks']}
        self.blocks = blocks
        self.verts = {}      # vid -> elem dict (with 'b' block id and 'i' index)
        self.succ = {}
        first = {}
        # vertices
        for b in cfg['blocks']:
            for i, e in enumerate(b['elems']):
                vid = (b['id'], i)
                self.verts[vid] = e
        self.entry_block = cfg['entry']
        self.exit_block = cfg['exit']

        def dec(s):
            if s is None:
                return None
            if s <= -1000000:
                return -(s + 1000000)
            return s

        def block_first(bid, seen=()):
            """first vertices reached when control enters block bid (skipping empty blocks)"""
            if bid == self.exit_block:
                return [self.NEXIT]
            b = blocks[bid]
            if b['elems']:
                return [(bid, 0)]
            out = []
            if bid in seen:
                return out
            for s in b['succs']:
                s = dec(s)
                if s is not None:
                    out.extend(block_first(s, seen + (bid,)))
            return out
        self.block_first = block_first
        for b in cfg['blocks']:
            n = len(b['elems'])
            for i in range(n - 1):
                self.succ.setdefault((b['id'], i), []).append((b['id'], i + 1))
            if n:
                last = (b['id'], n - 1)
                le = b['elems'][-1]
                is_throw = le['k'] == 'stmt' and le['n'] >= 0 and fn.nodes[le['n']]['k'] == 'CXXThrowExpr'
                outs = []
                for s in b['succs']:
                    s = dec(s)
                    if s is None:
                        continue
                    if s == self.exit_block and (is_throw or b.get('noreturn')):
                        outs.append(self.XEXIT)
                    else:
                        outs.extend(block_first(s))
                self.succ.setdefault(last, []).extend(outs)
        # branch table: last vertex of a block with >= 2 successors -> condition + per-successor
        # targets (CFG order: true branch first)
        self.branch = {}
        for b in cfg['blocks']:
            if len(b['succs']) >= 2 and b['elems']:
                tg = []
                for s in b['succs']:
                    s = dec(s)
                    tg.append(block_first(s) if s is not None else [])
                self.branch[(b['id'], len(b['elems']) - 1)] = {
                    'cond': b.get('cond', -1), 'termk': b.get('termk'), 'term': b.get('term', -1),
                    'targets': tg, 'tempdtor': bool(b.get('tempdtor_branch')), 'succ_blocks': [dec(s_) for s_ in b['succs']]}
        self.succ[self.ENTRY] = block_first(self.entry_block)
        self.succ.setdefault(self.NEXIT, [])
        self.succ.setdefault(self.XEXIT, [])
        # node id -> vertex
        self.vertex_of = {}
        for vid, e in self.verts.items():
            if e['k'] in ('stmt', 'init') and e.get('n', -1) >= 0:
                self.vertex_of.setdefault(e['n'], vid)
        self._add_eh_edges()
        self.pred = {}
        for a, bs in self.succ.items():
            for b in bs:
                self.pred.setdefault(b, []).append(a)

    def _add_eh_edges(self):
        """edges from every call inside a try body to the handlers of that try (clang's own EH
        edges are not used).  Handler entry blocks are the CFG blocks labelled by the catch."""
        fn = self.fn
        handler_block = {}
        for b in self.blocks.values():
            if b.get('labelk') == 'CXXCatchStmt' and b.get('label', -1) >= 0:
                handler_block[b['label']] = b['id']
        self.try_of_vertex = {}
        for t in fn.all_nodes({'CXXTryStmt'}):
            inside = set(fn.descendants(t['body']))
            hfirst = []
            for h in t['handlers']:
                if h in handler_block:
                    hfirst.extend(self.block_first(handler_block[h]))
            for vid, e in self.verts.items():
                if e['k'] == 'stmt' and e['n'] in inside:
                    n = fn.nodes[e['n']]
                    self.try_of_vertex.setdefault(vid, []).append(t['id'])
                    if n['k'] in CALL_KINDS or n['k'] in ('CXXNewExpr', 'CXXThrowExpr'):
                        for h in hfirst:
                            if h not in self.succ.setdefault(vid, []):
                                self.succ[vid].append(h)

    def vertices(self):
        return list(self.verts.keys())

    def node_of(self, vid):
        e = self.verts.get(vid)
        if e and e['k'] in ('stmt', 'init') and e.get('n', -1) >= 0:
            return e['n']
        return None

    def reach(self, starts, avoid=frozenset(), include_start=False):
        """vertices reachable from the successors of `starts` without entering `avoid`"""
        seen = set()
        st = []
        for s in starts:
            if include_start:
                if s not in avoid:
                    st.append(s)
            else:
                st.extend(x for x in self.succ.get(s, []) if x not in avoid)
        while st:
            v = st.pop()
            if v in seen:
                continue
            seen.add(v)
            for w in self.succ.get(v, []):
                if w not in seen and w not in avoid:
                    st.append(w)
        return seen

    def path(self, start, goal, avoid=frozenset()):
        """shortest path start -> goal avoiding `avoid` (list of vertices) or None"""
        from collections import deque
        prev = {start: None}
        dq = deque([start])
        while dq:
            v = dq.popleft()
            if v == goal and v != start:
                out = []
                while v is not None:
                    out.append(v)
                    v = prev[v]
                return out[::-1]
            for w in self.succ.get(v, []):
                if w not in prev and w not in avoid:
                    prev[w] = v
                    dq.append(w)
        return None

    def dominates(self, a, b):
        """every path ENTRY -> b passes a"""
        if a == b:
            return True
        return b not in self.reach([self.ENTRY], avoid={a})

    def reachable(self):
        return self.reach([self.ENTRY]) | {self.ENTRY}

    def describe_path(self, path):
        out = []
        last = None
        for v in path:
            if isinstance(v, str):
                out.append(v)
                continue
            n = self.node_of(v)
            if n is None:
                continue
            l = self.fn.loc(n)
            if l != last:
                out.append(l)
                last = l
        return out


def eval_bool(fn, i, atom):
    """three-valued evaluation of a condition tree; atom(node_id) -> True/False/None for leaves the
    caller understands (called on every sub-expression first, outermost first)"""
    i = fn.strip(i, casts='all')
    n = fn.nodes[i]
    a = atom(i)
    if a is not None:
        return a
    k = n['k']
    if 'cv' in n and n.get('tc') in ('b', 's', 'u', 'e'):
        return int(n['cv']) != 0
    if k == 'UnaryOperator' and n['op'] == '!':
        v = eval_bool(fn, n['ch'][0], atom)
        return None if v is None else (not v)
    if k == 'CXXOperatorCallExpr' and n.get('op') == '!' and False:
        return None
    if k == 'BinaryOperator' and n['op'] in ('&&', '||'):
        l = eval_bool(fn, n['ch'][0], atom)
        r = eval_bool(fn, n['ch'][1], atom)
        if n['op'] == '&&':
            if l is False or r is False:
                return False
            if l is True and r is True:
                return True
            return None
        if l is True or r is True:
            return True
        if l is False and r is False:
            return False
        return None
    if k == 'BinaryOperator' and n['op'] in ('==', '!='):
        l = eval_bool(fn, n['ch'][0], atom)
        r = eval_bool(fn, n['ch'][1], atom)
        lt = fn.nodes[fn.strip(n['ch'][0], 'all')].get('tc')
        rt = fn.nodes[fn.strip(n['ch'][1], 'all')].get('tc')
        if l is None or r is None or lt != 'b' and rt != 'b':
            return None
        return (l == r) if n['op'] == '==' else (l != r)
    return None


class Program:
    def __init__(self, data, info, repo=REPO):
        self.repo = repo
        self.info = info
        self.funcs = {}        # usr -> Func
        self.classes = {}      # qname -> class record
        self.statics = {}
        self.unit_of = {}
        for d in data:
            for f in d['functions']:
                u = f['usr']
                if not u:
                    u = f['qname'] + '#' + ','.join(p['type'] for p in f['params'])
                    f['usr'] = u
                if u not in self.funcs:
                    self.funcs[u] = Func(f, self)
                    self.unit_of[u] = d['unit']
            for c in d['classes']:
                self.classes.setdefault(c['qname'], c)
            for s in d['statics']:
                self.statics.setdefault(s['qname'] + '@' + s['file'] + ':' + str(s['line']), s)
        self.by_qname = {}
        for f in self.funcs.values():
            self.by_qname.setdefault(f.qname, []).append(f)
        self._cg = None

    def fn(self, qname, nparams=None, ptypes=None, const=None):
        """exactly one function by qualified name (+ optional disambiguation); AnalysisBroken when
        the anchor vanished"""
        c = self.by_qname.get(qname, [])
        if nparams is not None:
            c = [f for f in c if len(f.params) == nparams]
        if ptypes is not None:
            c = [f for f in c if [p['type'] for p in f.params] == list(ptypes)]
        if const is not None:
            c = [f for f in c if bool(f.rec.get('const')) == const]
        if len(c) != 1:
            raise AnalysisBroken('anchor %s (%s) resolves to %d functions' % (qname, ptypes if ptypes is not None else nparams, len(c)))
        return c[0]

    def fns(self, qname):
        return list(self.by_qname.get(qname, []))

    def repo_funcs(self, implicit=False):
        return [f for f in self.funcs.values() if implicit or not f.implicit]

    def callgraph(self):
        """usr -> set of callee usrs that are defined in the repository (direct calls, ctor calls);
        std::vector<T> members instantiate T's special members: added as edges"""
        if self._cg is None:
            cg = {}
            for f in self.funcs.values():
                out = set()
                for n in f.calls():
                    cu = n['callee']['usr']
                    if cu in self.funcs:
                        out.add(cu)
                    else:
                        out |= self._container_edges(n)
                        mk = self.makes(f, n)
                        if mk:
                            out.add(mk['usr'])
                # destructors of automatic objects / temporaries of repo classes
                cg[f.usr] = out
            self._cg = cg
        return self._cg

    def makes(self, f, n):
        """std::make_shared<T>(args) / std::make_unique<T>(args) constructs a T from args: the repo
        constructor it selects (by class and number of arguments), as {'class', 'usr', 'nparams'}; else None"""
        if 'makes' in n:
            return n['makes']
        n['makes'] = None
        c = n.get('callee', {})
        if n['k'] != 'CallExpr' or c.get('qname') not in ('std::make_shared', 'std::make_unique'):
            return None
        m = re.match(r'^std::(?:shared|unique)_ptr<(.*)>$', c.get('ret', ''))
        if not m:
            return None
        cls = m.group(1)
        k = len(n.get('args', []))
        cands = [g for g in self.funcs.values() if g.kind == 'ctor' and g.cls == cls and len(g.params) == k]
        if k == 1:
            # copy construction vs a one-argument constructor: decided by the argument's type
            at = f.nodes[f.strip(n['args'][0], 'noop')].get('t', '').replace('const ', '').strip()
            cands = [g for g in cands if (g.rec.get('copy') or g.rec.get('move')) == (at == cls)] or cands
        if len(cands) == 1:
            n['makes'] = {'class': cls, 'usr': cands[0].usr, 'nparams': k}
        elif not cands and cls in self.classes:
            n['makes'] = {'class': cls, 'usr': None, 'nparams': k}
        return n['makes']

    def _container_edges(self, n):
        c = n['callee']
        cls = c.get('class', '')
        out = set()
        if c.get('classq') == 'std::vector':
            el = cls[len('std::vector<'):-1]
            if el in self.classes:
                for f in self.funcs.values():
                    if f.cls == el and f.kind in ('ctor', 'dtor'):
                        out.add(f.usr)
                    if f.cls == el and (f.rec.get('copyassign') or f.rec.get('moveassign')):
                        out.add(f.usr)
        return out

    def reachable_from(self, roots):
        cg = self.callgraph()
        seen = set()
        st = [r.usr if isinstance(r, Func) else r for r in roots]
        while st:
            u = st.pop()
            if u in seen:
                continue
            seen.add(u)
            st.extend(cg.get(u, ()))
        return seen

    def callers_of(self, usr):
        out = []
        for f in self.funcs.values():
            for n in f.calls():
                if n['callee']['usr'] == usr:
                    out.append((f, n))
        return out

    def public_mutators(self, cls='ezc3d::c3d'):
        c = self.classes.get(cls)
        if not c:
            raise AnalysisBroken('class %s not found' % cls)
        out = []
        for m in c['methods']:
            if m['kind'] == 'method' and m['access'] == 'public' and not m['const'] and \
                    not m['static'] and not m['implicit'] and m['usr'] in self.funcs:
                out.append(self.funcs[m['usr']])
        return out


def load(repo=REPO, extra_flags=(), use_cache=True):
    t0 = time.time()
    data, info = extract(repo, extra_flags, use_cache=use_cache)
    info['extract_s'] = round(time.time() - t0, 2)
    p = Program(data, info, repo)
    # the library has no function pointers / indirect calls of its own: verify, else the call
    # graph is not closed
    for f in p.funcs.values():
        for n in f.all_nodes({'CallExpr', 'CXXMemberCallExpr'}):
            if n.get('indirect'):
                raise AnalysisBroken('indirect call at %s: call graph not closed' % f.loc(n['id']))
    # anchors: the members that the layout transcription (spec/c3d_layout.json) and the finite models name must exist under these names;
    # a renamed / regrouped member is an analysis-broken tree (exit 2), never a verdict
    try:
        with open(os.path.join(VERIF, 'spec', 'c3d_layout.json')) as fh:
            spec = json.load(fh)
        want = {'ezc3d::Header': [x.get('member') for x in spec.get('header', []) if x.get('member')]}
    except Exception:
        want = {}
    want.setdefault('ezc3d::ParametersNS::GroupNS::Parameter', []).extend(['_data_type', '_dimension', '_param_data_int', '_param_data_float', '_param_data_string', '_name', '_description', '_isLocked'])
    want.setdefault('ezc3d::ParametersNS::GroupNS::Group', []).extend(['_name', '_description', '_isLocked', '_parameters'])
    want.setdefault('ezc3d::ParametersNS::Parameters', []).extend(['_groups', '_parametersStart', '_checksum', '_nbParamBlock', '_processorType'])
    want.setdefault('ezc3d::DataNS::Data', []).extend(['_frames'])
    want.setdefault('ezc3d::DataNS::Frame', []).extend(['_points', '_analogs'])
    want.setdefault('ezc3d::c3d', []).extend(['_header', '_parameters', '_data'])
    for cq, names in want.items():
        c = p.classes.get(cq)
        if c is None:
            raise AnalysisBroken('anchor vanished: class %s' % cq)
        have = {fl['name'] for fl in c['fields']}
        missing = [n_ for n_ in names if n_ not in have]
        if missing:
            raise AnalysisBroken('anchor vanished: %s no longer has member(s) %s (renamed or regrouped: the layout transcription and the models name them)' % (cq.split('::')[-1], missing))
    return p


if __name__ == '__main__':
    p = load()
    print(len(p.funcs), 'functions', len(p.classes), 'classes', p.info)
