"""Universally quantified size guards ("validate every element first"):

    for (v1 = 0; v1 < R1; ++v1) [for (v2 = 0; v2 < R2; ++v2)] if (SIZE(v1[,v2]) < N) throw ...;

establishes  forall v1 < R1 [forall v2 < R2]: SIZE >= N  at every vertex the loop nest dominates
through its normal exit.  A later bounds-checked access  O.accessor(i)  with  O.container.size ==
SIZE[v := u]  (u the loop variables at the access, each ranging below the same R, possibly through a
dominating equality guard) and i < N cannot raise out_of_range."""
import re
from paths import Renderer
from loops import normal_for, enclosing_fors


_MODE = ['throw']


def _then_only_throws(f, ifn):
    if 'else' in ifn:
        return False
    body = f.nodes[f.strip(ifn['then'], 'noop')]
    stmts = body['ch'] if body['k'] == 'CompoundStmt' else [ifn['then']]
    if len(stmts) != 1:
        return False
    s = f.nodes[f.strip(stmts[0], 'all')]
    if _MODE[0] == 'reason':
        # inside a reason-returning checker a refusal is `return <non-null>`
        if f.nodes[stmts[0]]['k'] == 'ReturnStmt' or s['k'] == 'ReturnStmt':
            rs = f.nodes[stmts[0]] if f.nodes[stmts[0]]['k'] == 'ReturnStmt' else s
            if rs.get('ch'):
                rv = f.nodes[f.strip(rs['ch'][0], 'all')]
                return rv['k'] not in ('CXXNullPtrLiteralExpr', 'GNUNullExpr') and str(rv.get('cv')) not in ('0', 'False', 'false')
        return False
    return s['k'] == 'CXXThrowExpr'


def helper_facts(f):
    """forall-facts and equalities established for f by a reason-returning checker whose non-null result f throws on:
    -> (facts in f's terms anchored at the test in f, equalities (x, y, node in f))"""
    try:
        import validators
        from codec import substitute
    except ImportError:
        return [], []
    R = Renderer(f)
    facts, eqs = [], []
    for ifn in f.all_nodes({'IfStmt'}):
        if not _then_only_throws(f, ifn):
            continue
        c = f.nodes[f.strip(ifn['cond'], 'all')]
        rc = None
        if c['k'] == 'BinaryOperator' and c['op'] == '!=':
            for a_, b_ in ((c['ch'][0], c['ch'][1]), (c['ch'][1], c['ch'][0])):
                bn = f.nodes[f.strip(b_, 'all')]
                if bn['k'] in ('CXXNullPtrLiteralExpr', 'GNUNullExpr') or str(bn.get('cv')) == '0':
                    rc = validators.reason_call(f.prog, f, a_)
                    if rc:
                        break
        elif c['k'] in ('DeclRefExpr', 'CallExpr'):
            rc = validators.reason_call(f.prog, f, c['id'])
        if not rc:
            continue
        cn, cf, gs = rc
        sub = {'arg%d' % j: re.sub(r'^\*\((.*)\)$', r'\1', R.render(a_)) for j, a_ in enumerate(f.call_args(cn))}
        if f.call_obj(cn) is not None:
            sub['this'] = re.sub(r'^\*\((.*)\)$', r'\1', R.render(f.call_obj(cn)))
        _MODE[0] = 'reason'
        try:
            cfacts = facts_of(cf)
            ceqs = equalities(cf)
        finally:
            _MODE[0] = 'throw'
        for fa in cfacts:
            facts.append({'size': substitute(fa['size'], sub), 'n': substitute(fa['n'], sub), 'ranges': [substitute(r_, sub) for r_ in fa['ranges']],
                          'loop': ifn['id'], 'if': ifn['id'], 'strict': fa['strict'], 'anchor': f.strip(ifn['cond'], 'all'), 'after': True})
        for x, y, _cid in ceqs:
            eqs.append((substitute(x, sub), substitute(y, sub), f.strip(ifn['cond'], 'all')))
    return facts, eqs


def split_or(f, i):
    n = f.nodes[f.strip(i, 'all')]
    if n['k'] == 'BinaryOperator' and n['op'] == '||':
        return split_or(f, n['ch'][0]) + split_or(f, n['ch'][1])
    return [n['id']]


def facts_of(f):
    """list of dicts {size: template with $0/$1.., n: render, ranges: [render...], vertex: exit anchor node id}"""
    R = Renderer(f)
    out = []
    for ifn in f.all_nodes({'IfStmt'}):
        if not _then_only_throws(f, ifn):
            continue
        fors = enclosing_fors(f, ifn['id'])
        if not fors:
            continue
        lfs = [normal_for(f, x) for x in fors]   # innermost first
        if any(l is None or l['start_cv'] != '0' or l['op'] != '<' for l in lfs):
            continue
        lfs = lfs[::-1]   # outermost first
        # the loop bodies contain nothing but the nested loop / the guard (pure validation nest)
        for d in split_or(f, ifn['cond']):
            c = f.nodes[d]
            if c['k'] != 'BinaryOperator' or c['op'] not in ('<', '!=', '>'):
                continue
            l, r = R.render(c['ch'][0]), R.render(c['ch'][1])
            if c['op'] == '>':
                l, r = r, l
            size, n = l, r
            if not size.endswith('.size'):
                continue
            tmpl = size
            ranges = []
            for k, lf in enumerate(lfs):
                tmpl = re.sub(r'\blocal:%s\b' % re.escape(lf['name']), '$%d' % k, tmpl)
                ranges.append(R.render(lf['bound']))
            if 'local:' in tmpl.replace('local:', '', 0) and re.search(r'local:\w+', tmpl):
                # mentions a multi-definition local that is not one of the loop variables
                pass
            out.append({'size': tmpl, 'n': n, 'ranges': ranges, 'loop': lfs[0]['for'], 'if': ifn['id'], 'strict': c['op'] != '!='})
    # the same guard written with a std algorithm:
    #   [for (v1 < R1)] if (std::any_of(X.begin(), X.end() | X.begin() + K, [..](const T& e) { return SIZE(e) < N; })) throw ...;
    from paths import lambda_params
    for did, lp in lambda_params(f).items():
        call = f.nodes[lp[2]]
        if call['callee'].get('qname') != 'std::any_of':
            continue
        ifn = None
        for a in f.ancestors(call['id']):
            an = f.nodes[a]
            if an['k'] == 'IfStmt':
                if f.strip(an['cond'], 'all') == call['id'] and _then_only_throws(f, an):
                    ifn = an
                break
            if an['k'] not in ('ExprWithCleanups', 'ImplicitCastExpr', 'ParenExpr', 'MaterializeTemporaryExpr', 'CXXBindTemporaryExpr'):
                break
        if ifn is None:
            continue
        body = f.nodes[lp[4]]
        st = [f.nodes[x] for x in body['ch']]
        if len(st) != 1 or st[0]['k'] != 'ReturnStmt' or not st[0]['ch']:
            continue
        fors = enclosing_fors(f, ifn['id'])
        lfs = [normal_for(f, x) for x in fors]
        if any(l is None or l['start_cv'] != '0' or l['op'] != '<' for l in lfs):
            continue
        lfs = lfs[::-1]
        for d in split_or(f, st[0]['ch'][0]):
            c = f.nodes[d]
            if c['k'] != 'BinaryOperator' or c['op'] not in ('<', '!=', '>'):
                continue
            l, r = R.render(c['ch'][0]), R.render(c['ch'][1])
            if c['op'] == '>':
                l, r = r, l
            if not l.endswith('.size'):
                continue
            tmpl = l
            ranges = []
            for k, lf in enumerate(lfs):
                tmpl = re.sub(r'\blocal:%s\b' % re.escape(lf['name']), '$%d' % k, tmpl)
                ranges.append(R.render(lf['bound']))
            tmpl = re.sub(r'\blocal:%s\b' % re.escape(lp[1]), '$%d' % len(lfs), tmpl)
            ranges.append(R.render(lp[7]) if lp[7] is not None else R.render(lp[0]) + '.size')
            anchor = lfs[0]['for'] if lfs else ifn['id']
            out.append({'size': tmpl, 'n': r, 'ranges': ranges, 'loop': anchor, 'if': ifn['id'], 'strict': c['op'] != '!=', 'anchor': call['id'] if not lfs else None})
    return out


def equalities(f):
    """pairs of renderings known equal after a guard  if (a != b) throw  (then-only-throws), with
    the IfStmt node that establishes it"""
    R = Renderer(f)
    out = []
    for ifn in f.all_nodes({'IfStmt'}):
        if not _then_only_throws(f, ifn):
            continue
        for d in split_or(f, ifn['cond']):
            c = f.nodes[d]
            if c['k'] == 'BinaryOperator' and c['op'] == '!=':
                out.append((R.render(c['ch'][0]), R.render(c['ch'][1]), c['id']))
    return out


ACCESSOR = {'subframe': '_subframe', 'point': '_points', 'channel': '_channels', 'frame': '_frames'}


def norm_acc(r):
    """positional accessor calls spelled as subscripts of their container: x.subframe(i) -> x._subframe[i]"""
    for a, c in ACCESSOR.items():
        r = re.sub(r'\.%s\(((?:local:\w+|\$\d+|\d+))\)' % a, lambda m: '.%s[%s]' % (c, m.group(1)), r)
    return r


def covered(f, call_node, obj_render, cont, idx_node):
    """the access obj.<cont>[idx] (through a bounds-checked accessor) at call_node is within
    bounds by a forall-guard of f that dominates it"""
    R = Renderer(f)
    g = f.events()
    cv = g.vertex_of.get(call_node)
    if cv is None:
        return False
    site_size = norm_acc('%s.%s.size' % (obj_render, cont))
    # loop variables in scope at the site
    scope = {}
    for fid in enclosing_fors(f, call_node):
        lf = normal_for(f, fid)
        if lf and lf['start_cv'] == '0' and lf['op'] == '<':
            scope[lf['name']] = R.render(lf['bound'])
    idx = f.nodes[f.strip(idx_node, 'all')]
    hfacts, heqs = helper_facts(f)
    eqs = equalities(f) + heqs

    def same(a, b, at):
        a = re.sub(r'^\((?:unsigned |signed )?\w[\w ]*\)(?=[\w(])', '', a)
        b = re.sub(r'^\((?:unsigned |signed )?\w[\w ]*\)(?=[\w(])', '', b)
        if a == b:
            return True
        for x, y, cid in eqs:
            iv = g.vertex_of.get(cid)
            if {x, y} == {a, b} and iv is not None and g.dominates(iv, at):
                return True
        return False
    for fact in facts_of(f) + hfacts:
        # the validation nest must be complete before the access: its loop header dominates the
        # access and the access is not inside the nest
        lv = g.vertex_of.get(fact['anchor']) if fact.get('anchor') is not None else g.vertex_of.get(f.nodes[fact['loop']].get('cond', -1))
        if lv is None or not g.dominates(lv, cv) or call_node in f.descendants(fact['loop']):
            continue
        # match the template against the site's size expression
        pat = re.escape(norm_acc(fact['size']))
        for k in range(len(fact['ranges'])):
            pat = pat.replace(re.escape('$%d' % k), r'(?P<v%d>local:\w+|\d+)' % k)
        m = re.match('^' + pat + '$', site_size)
        if not m:
            continue
        ok = True
        for k, rng in enumerate(fact['ranges']):
            u = m.group('v%d' % k)
            if u.startswith('local:'):
                name = u[6:]
                if name not in scope or not same(scope[name], rng, cv):
                    ok = False
            else:
                ok = False   # a constant index into the quantified container: needs range > const (not derived here)
        if not ok:
            continue
        # the index: a loop variable bounded by the fact's N
        if idx['k'] == 'DeclRefExpr' and idx['decl'].get('dk') == 'local' and idx['decl']['name'] in scope and same(scope[idx['decl']['name']], fact['n'], cv):
            return True
    return False
