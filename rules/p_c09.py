"""C09 — parameter and group edits change exactly what was asked (partial claim).

effects        : effect sets (A3) of the edit functions against the allowed sets (append, or assign of
                 the one matched element; merge parameter by parameter; nothing erases/inserts/sorts)
replace-search : the element that is replaced is the one found by the exact-name search; append only
                 when nothing matched
edit-order     : c3d::parameter = name check -> type check -> find-or-create group -> Group::parameter
                 -> updateHeader
validate-first : every typed setter assigns _data_type/_dimension/values only after the consistency
                 test whose failing branch throws std::range_error; stored type constant and vector match
                 the overload; the string overload prepends the longest string length
consistency    : isDimensionConsistent computes its products in full-width unsigned arithmetic (no
                 narrowing before the comparison)
lock           : lock()/unlock() write exactly the flag; lockGroup/unlockGroup do nothing else"""
import re
from facts import AnalysisBroken
from result import Result
from paths import Renderer
from loops import normal_for, enclosing_fors
import effects as FX
import setters

G = 'ezc3d::ParametersNS::GroupNS::Group'
PR = 'ezc3d::ParametersNS::GroupNS::Parameter'
PS = 'ezc3d::ParametersNS::Parameters'


def eff(prog, f, roots=('this',)):
    E = FX.get(prog)
    return sorted({(r, p, k) for r, p, k in E.of(f) if r in roots or r in ('static', 'unknown')})


def allowed_effects_rule(prog, res):
    E = FX.get(prog)
    gp = prog.fn(G + '::parameter', ptypes=['const ezc3d::ParametersNS::GroupNS::Parameter &'])
    pfields = [fl['name'] for fl in prog.classes[PR]['fields']]
    # whole-element assignment shows as assignment of every Parameter member under _parameters[*]
    allowed_gp = {('this', ('_parameters',), 'append')} | {('this', ('_parameters', '[]', m), 'assign') for m in pfields}
    got = set(eff(prog, gp))
    extra = got - allowed_gp
    R = Renderer(gp)
    # an element write other than the whole-element assignment (e.g. a flag toggled on the stored copy)
    partial = []
    for n in gp.calls():
        o = gp.call_obj(n)
        if o is not None and n['callee'].get('inrepo') and not n['callee'].get('const') and n['callee']['name'] != 'operator=' and R.render(o).startswith('this._parameters['):
            partial.append('%s.%s()' % (R.render(o), n['callee']['name']))
    from paths import root_of as _root_of
    whole = [n for n in gp.nodes if n['k'] == 'CXXOperatorCallExpr' and n.get('op') == '=' and R.render(n['args'][1]) == 'arg0' and
             (R.render(n['args'][0]).startswith('this._parameters[') or _root_of(gp, n['args'][0]) == ('this', ['_parameters', '[]']))]
    if not extra and not partial and len(whole) == 0 and _unseen_stores(gp, '_parameters'):
        res.undecided('effects', 'Group::parameter(const Parameter&)', gp.loc(), 'the element is written through %s [shape not read by the rule]' % _unseen_stores(gp, '_parameters'), function=gp.sig, expr='gp')
    elif not extra and not partial and len(whole) == 0 and [n for n in gp.nodes if n['k'] == 'CXXOperatorCallExpr' and n.get('op') == '=' and R.render(n['args'][1]) == 'arg0']:
        # the argument is assigned as a whole to something the rule cannot name as an element (through a pointer / iterator to it)
        res.undecided('effects', 'Group::parameter(const Parameter&)', gp.loc(), 'the argument is assigned as a whole to a place the rule cannot resolve to an element of _parameters [shape not read by the rule]',
                      function=gp.sig, expr='gp')
    elif extra or partial or len(whole) != 1:
        res.viol('effects', 'Group::parameter(const Parameter&)', gp.loc(),
                 'may only append the parameter or assign the matched element as a whole; found extra effects %s, partial element writes %s, %d whole-element assignments of the argument' %
                 (sorted(FX.fmt(e) for e in extra), partial, len(whole)), function=gp.sig, expr='effects')
    else:
        res.ok('effects', 'Group::parameter(const Parameter&)', gp.loc(), 'append, or assignment of the matched element from the argument; nothing else', function=gp.sig, expr='effects')
    pg = prog.fn(PS + '::group', ptypes=['const ezc3d::ParametersNS::GroupNS::Group &'])
    gfields = [fl['name'] for fl in prog.classes[G]['fields']]
    allowed_pg = {('this', ('_groups',), 'append')} | {('this', ('_groups', '[]') + e[1], e[2]) for e in allowed_gp}
    extra = set(eff(prog, pg)) - allowed_pg
    if extra:
        res.viol('effects', 'Parameters::group(const Group&)', pg.loc(), 'may only append the group or merge its parameters into the matched group; extra effects %s' % sorted(FX.fmt(e) for e in extra),
                 function=pg.sig, expr='effects')
    else:
        res.ok('effects', 'Parameters::group(const Group&)', pg.loc(), 'append, or parameter-by-parameter merge into the matched group', function=pg.sig, expr='effects')
    # the merge hands over every parameter of the incoming group: the loop runs over the ARGUMENT's parameters
    from loops import loops_around
    Rpg = Renderer(pg)
    nm = 0
    for c in pg.calls():
        if c['callee']['qname'] == G + '::parameter' and c['callee'].get('nparams') == 1 and len(pg.call_args(c)) == 1:
            a0 = Rpg.render(pg.call_args(c)[0])
            mm = re.match(r'^arg0\.(?:parameter\(local:(\w+)\)|_parameters\[local:(\w+)\])$', a0)
            if not mm:
                continue
            nm += 1
            iv = mm.group(1) or mm.group(2)
            la = [l for l in loops_around(pg, c['id'], Rpg) if l.get('name') == iv]
            if not la:
                res.undecided('effects', 'Parameters::group merge loop', pg.loc(c['id']), 'the loop that walks the incoming parameters is not a counted loop the rule reads [shape not read by the rule]', function=pg.sig, expr='merge-loop')
            elif re.sub(r'^\(unsigned long\)', '', la[0]['bound']) in ('arg0._parameters.size', 'arg0.nbParameters()'):
                res.ok('effects', 'Parameters::group merge loop', pg.loc(c['id']), 'one hand-over per parameter of the incoming group', function=pg.sig, expr='merge-loop')
            elif re.search(r'\.size$|nbParameters\(\)$', la[0]['bound']):
                res.viol('effects', 'Parameters::group merge loop', pg.loc(c['id']), 'the merge reads arg0.parameter(%s) in a loop bounded by %s, not by the number of parameters of the incoming group: parameters are left out '
                         '(or read past the end) whenever the two groups differ in size' % (iv, la[0]['bound']), function=pg.sig, expr='merge-loop', sure=True)
            else:
                res.undecided('effects', 'Parameters::group merge loop', pg.loc(c['id']), 'merge loop bounded by %s [shape not read by the rule]' % la[0]['bound'], function=pg.sig, expr='merge-loop')
    cp = prog.fn('ezc3d::c3d::parameter', nparams=2)
    hdr = {fl['name'] for fl in prog.classes['ezc3d::Header']['fields']}
    allowed_cp = {('this', ('_parameters',) + e[1], e[2]) for e in allowed_pg} | {('this', ('_parameters', '_groups', '[]') + e[1], e[2]) for e in allowed_gp}
    extra = {e for e in set(eff(prog, cp)) - allowed_cp if not (e[1][:1] == ('_header',) and len(e[1]) == 2 and e[1][1] in hdr and e[2] == 'assign')}
    if extra:
        res.viol('effects', 'c3d::parameter', cp.loc(), 'modifies more than the target group/parameter and the header: %s' % sorted(FX.fmt(e) for e in extra), function=cp.sig, expr='effects')
    else:
        res.ok('effects', 'c3d::parameter', cp.loc(), 'group list append, target group\'s parameter list, header fields (through updateHeader)', function=cp.sig, expr='effects')
    # nothing erases / inserts / sorts in the edit functions
    for f in (gp, pg, cp):
        kinds = {k for r, p, k in E.of(f) if r == 'this'}
        bad = kinds & {'erase', 'insert'}
        sorts = [n for n in f.calls() if n['callee']['qname'] in ('std::sort', 'std::stable_sort', 'std::reverse', 'std::rotate', 'std::swap')]
        if bad or sorts:
            res.viol('effects', '%s: order preserving' % f.name, f.loc(), 'edit function %s: neighbours do not keep their position' % (sorted(bad) or [s['callee']['qname'] for s in sorts]),
                     function=f.sig, expr='order')
        else:
            res.ok('effects', '%s::%s: order preserving' % (f.qname.split('::')[-2], f.name), f.loc(), 'no erase / insert / sort', function=f.sig, expr='order', nontrivial=False)


def replace_search_rule(prog, res, f, cont, elem_name_re, arg_name):
    """search loop over [0, size): on exact name equality remember the index; afterwards
    `idx == SIZE_MAX ? push_back(arg) : replace/merge at idx`"""
    R = Renderer(f)
    inst = '%s::%s replace-or-append' % (f.qname.split('::')[-2], f.name)
    fors = [n for n in f.all_nodes({'ForStmt'})]
    lf = normal_for(f, fors[0]['id']) if fors else None
    if lf is None or lf['start_cv'] != '0' or lf['op'] != '<' or R.render(lf['bound']) != 'this.%s.size' % cont:
        res.viol('replace-search', inst, f.loc(), 'no search loop over [0, %s.size)' % cont, function=f.sig, expr='loop')
        return
    # the equality test inside the loop
    hit = None
    for n in f.all_nodes({'IfStmt'}):
        if n['id'] not in f.descendants(lf['body']) and n['id'] != f.strip(lf['body']):
            continue
        c = R.render(n['cond'])
        m = re.match(r'^!\(\(bool\)(.*)\.compare\((.*)\)\)$', c) or re.match(r'^\((.*) == (.*)\)$', c)
        if m:
            sides = {m.group(1), m.group(2)}
            el = elem_name_re % lf['name']
            if any(re.match(el, s) for s in sides) and arg_name in sides:
                asg = [x for x in f.descendants(n['then']) if f.nodes[x]['k'] == 'BinaryOperator' and f.nodes[x]['op'] == '=' and R.render(f.nodes[x]['ch'][1]) == 'local:%s' % lf['name']]
                if len(asg) == 1:
                    hit = R.render(f.nodes[asg[0]]['ch'][0])
    if not hit:
        # second idiom: write at the loop index and return inside the loop; append after the loop
        early = early_return_idiom(f, R, lf, cont, elem_name_re, arg_name)
        if early is True:
            res.ok('replace-search', inst, f.loc(fors[0]['id']), 'writes the first exact-name match in place and returns, otherwise appends after the loop', function=f.sig, expr='decision')
        elif early is None:
            res.undecided('replace-search', inst, f.loc(fors[0]['id']), 'the replace-or-append logic is not written in a form the rule knows (sentinel index or early return)', function=f.sig, expr='match')
        else:
            res.viol('replace-search', inst, f.loc(fors[0]['id']), early, function=f.sig, expr='match')
        return
    # the decision
    dec = None
    for n in f.all_nodes({'IfStmt'}):
        if R.render(n['cond']) == '(%s == 18446744073709551615)' % hit and 'else' in n:
            th = [f.nodes[x] for x in f.descendants(n['then']) if f.nodes[x]['k'] == 'CXXMemberCallExpr' and f.nodes[x]['callee']['name'] == 'push_back']
            if len(th) == 1 and R.render(f.call_obj(th[0])) == 'this.' + cont and R.render(th[0]['args'][0]) == 'arg0':
                els = [R.render(f.nodes[x]['args'][0]) for x in f.descendants(n['else']) if f.nodes[x]['k'] == 'CXXOperatorCallExpr' and f.nodes[x].get('op') == '[]'
                       and R.render(f.nodes[x]['args'][0]) == 'this.' + cont]
                idxs = [R.render(f.nodes[x]['args'][1]) for x in f.descendants(n['else']) if f.nodes[x]['k'] == 'CXXOperatorCallExpr' and f.nodes[x].get('op') == '[]'
                        and R.render(f.nodes[x]['args'][0]) == 'this.' + cont]
                if idxs and all(i == hit for i in idxs):
                    dec = n
    # the initial value of the remembered index is SIZE_MAX
    init_ok = False
    for n in f.all_nodes({'DeclStmt'}):
        for d in n['decls']:
            if 'local:' + d['name'] == hit and 'init' in d and f.nodes[f.strip(d['init'], 'all')].get('cv') == '18446744073709551615':
                init_ok = True
    if dec is None or not init_ok:
        res.viol('replace-search', inst, f.loc(), 'expected `found == SIZE_MAX ? push_back(argument) : write at the found index` with the index initialised to SIZE_MAX',
                 function=f.sig, expr='decision')
    else:
        res.ok('replace-search', inst, f.loc(dec['id']), 'appends iff no element has exactly the argument\'s name, otherwise writes at the matched index only', function=f.sig, expr='decision')


def _unseen_stores(f, cont):
    """ways of writing the container that the finite-model walk does not record: a lambda body, a std algorithm, a helper that is
    handed the container (or an element / a reference bound to one) by non-const reference"""
    R = Renderer(f)
    if any(True for _ in f.all_nodes({'LambdaExpr'})):
        return 'a lambda'
    for c in f.calls():
        q = str(c['callee'].get('qname', ''))
        if q in ('std::for_each', 'std::transform', 'std::copy', 'std::generate', 'std::fill', 'std::replace_if', 'std::find_if'):
            if q != 'std::find_if':
                return 'the algorithm %s' % q
        if c['callee'].get('inrepo') and not c['callee'].get('class'):
            for a, pt in zip(f.call_args(c), c['callee'].get('ptypes', [])):
                if pt.endswith('&') and not pt.startswith('const ') and ('this.' + cont) in R.render(a):
                    return 'the helper %s, which receives the container by reference' % c['callee']['name']
    return None


def model_replace_or_append(f, cont, accessor):
    """walk the function on models with 0..3 distinctly named elements (names over A, a, B) and an
    argument named A or a: the stores must be exactly `append the argument` when no element has the
    argument's name and otherwise `write at that element only`.
    -> ('ok', rows) | ('mismatch', text) | ('undecided', why)"""
    import itertools
    import a7
    R = Renderer(f)
    rows = 0
    for n, ARG in itertools.product(range(4), ('A', 'a')):
        for combo in itertools.permutations(('A', 'a', 'B'), n):
            model = {'this.%s.size' % cont: n, 'arg0._name': ARG, '#alias': {accessor: cont}, 'arg0._data_type': 2, 'arg0._parameters.size': 2}
            for k, nm in enumerate(combo):
                model['this.%s[%d]._name' % (cont, k)] = nm
            st = {'track': 'this.' + cont}
            try:
                events, end, undec = a7.walk(f, model, follow_loops=True, state=st, max_steps=3000)
            except a7.OutOfRange as e:
                return 'mismatch', 'with %d element(s) named %s the function reads element %s' % (n, list(combo), e)
            if end.startswith('undecided') or end == 'loop':
                return 'undecided', 'a condition cannot be evaluated on the model (%s)' % (R.render(undec[-1][0])[:120] if undec else end)
            acts = []
            ev = st['ev']
            # replay the events with the final evaluator is wrong for indices that change: indices are evaluated when met
            for nid, val in st.get('acts', []):
                acts.append(val)
            want = [('at', combo.index(ARG))] if ARG in combo else [('append', 'arg0')]
            got = sorted(set(acts))
            rows += 1
            if end == 'NEXIT' and set(want) - set(got) and _unseen_stores(f, cont):
                return 'undecided', 'the stores into %s are made where the walk does not record them (%s)' % (cont, _unseen_stores(f, cont))
            if end != 'NEXIT' or got != want:
                return 'mismatch', 'with %d element(s) named %s and an argument named %s the function ends in %s having done %s; specified: %s' % (
                    n, list(combo), ARG, end, got or 'nothing', want)
    return 'ok', rows


def replace_or_append(prog, res, f, cont, elem_name_re, arg_name):
    """the usual shapes are read off the syntax tree; anything else is decided on finite models"""
    from result import Result as _R
    tmp = _R('x', 'quick', '')
    replace_search_rule(prog, tmp, f, cont, elem_name_re, arg_name)
    if tmp.obs and all(o['verdict'] == 'ok' for o in tmp.obs):
        res.obs.extend(tmp.obs)
        return
    accessor = {'_parameters': 'parameter', '_groups': 'group'}[cont]
    v, info = model_replace_or_append(f, cont, accessor)
    inst = '%s::%s replace-or-append' % (f.qname.split('::')[-2], f.name)
    if v == 'ok':
        res.ok('replace-search', inst, f.loc(), 'not one of the usual shapes; walked on %d finite models (0..3 distinctly named elements): writes the element of the same name in place, '
               'otherwise appends the argument' % info, function=f.sig, expr='decision')
    elif v == 'mismatch':
        res.viol('replace-search', inst, f.loc(), info, function=f.sig, expr=(tmp.obs[0]['expr'] if len(tmp.obs) == 1 else 'decision'))
    else:
        res.undecided('replace-search', inst, f.loc(), 'the replace-or-append logic is not in a shape the rule reads and cannot be walked on finite models: %s' % info, function=f.sig, expr='match')


def early_return_idiom(f, R, lf, cont, elem_name_re, arg_name):
    """for (i..) if (name(i) == arg.name) { <write at [i]>; return; }  push_back(arg)   -> True / None (unknown) / text (wrong)"""
    for n in f.all_nodes({'IfStmt'}):
        if n['id'] not in f.descendants(lf['body']) and n['id'] != f.strip(lf['body']):
            continue
        c = R.render(n['cond'])
        m = re.match(r'^!\(\(bool\)(.*)\.compare\((.*)\)\)$', c) or re.match(r'^\((.*) == (.*)\)$', c) or re.match(r'^std::operator==\((.*),(.*)\)$', c)
        if not m:
            continue
        sides = {m.group(1), m.group(2)}
        el = elem_name_re % lf['name']
        el2 = el.replace(r'\.parameter\(', r'\._parameters\[').replace(r'\.group\(', r'\._groups\[')
        if not (any(re.match(el, s_) or re.match(el2.replace(r'\)\.', r'\]\.'), s_) for s_ in sides) and arg_name in sides):
            continue
        body = f.descendants(n['then'])
        rets = [x for x in body if f.nodes[x]['k'] == 'ReturnStmt']
        writes = [f.nodes[x] for x in body if f.nodes[x]['k'] == 'CXXOperatorCallExpr' and f.nodes[x].get('op') == '[]' and R.render(f.nodes[x]['args'][0]) == 'this.' + cont]
        if not rets:
            return None
        if not writes or any(R.render(w['args'][1]) != 'local:' + lf['name'] for w in writes):
            return 'the matched element is not the one written (index %s)' % [R.render(w['args'][1]) for w in writes]
        # append after the loop, unconditionally
        top = f.nodes[f.body]['ch']
        after = top[top.index(lf['for']) + 1:] if lf['for'] in top else []
        pb = [f.nodes[x] for a in after for x in f.descendants(a) if f.nodes[x]['k'] == 'CXXMemberCallExpr' and f.nodes[x]['callee']['name'] == 'push_back' and R.render(f.nodes[x]['obj']) == 'this.' + cont]
        if len(pb) == 1 and R.render(pb[0]['args'][0]) == 'arg0':
            return True
        return 'no append of the argument after the search loop'
    return None


def edit_order_rule(prog, res):
    f = prog.fn('ezc3d::c3d::parameter', nparams=2)
    g = f.events()
    R = Renderer(f)

    def v_of(pred):
        out = [g.vertex_of.get(n['id']) for n in f.nodes if pred(n)]
        return [x for x in out if x is not None]
    name_chk = v_of(lambda n: n['k'] == 'CXXThrowExpr' and n.get('throw_t') == 'std::invalid_argument' and not any(f.nodes[a]['k'] == 'CXXCatchStmt' for a in f.ancestors(n['id'])))
    def creates_group(n, depth=0):
        if n['k'] != 'CXXMemberCallExpr' and n['k'] != 'CallExpr':
            return False
        cal = n.get('callee', {})
        if cal.get('qname') == PS + '::group' and not cal.get('const') and n['k'] == 'CXXMemberCallExpr':
            return True
        # ... or a member of c3d / file-local helper that does it (find-or-create helper)
        h = prog.funcs.get(cal.get('usr')) if cal.get('inrepo') else None
        if h is None or h.body is None or depth > 2 or not (h.cls == 'ezc3d::c3d' or h.rec.get('internal') or '(anonymous namespace)' in h.qname) or h.qname in ('ezc3d::c3d::updateHeader', 'ezc3d::c3d::updateParameters'):
            return False
        return any(creates_group(m, depth + 1) for m in h.calls())
    create = v_of(creates_group)
    store = v_of(lambda n: n['k'] == 'CXXMemberCallExpr' and n['callee']['qname'] == G + '::parameter' and not n['callee'].get('const') and n['callee']['nparams'] == 1)
    upd = v_of(lambda n: n['k'] == 'CXXMemberCallExpr' and n['callee']['qname'] == 'ezc3d::c3d::updateHeader')
    ok = len(store) == 1 and len(upd) == 1 and len(create) == 1 and name_chk
    why = 'expected exactly one group creation, one Group::parameter call and one updateHeader call'
    if ok:
        # creation only in the handler of the failed look-up; store after; update after store on every path
        cr_in_catch = any(f.nodes[a]['k'] == 'CXXCatchStmt' and f.nodes[a].get('catch_t') == 'std::invalid_argument' for a in f.ancestors(g.node_of(create[0])))
        if not cr_in_catch:
            # creation decided by a test: walk on finite models - an absent group must be created before the store
            import a7
            import itertools
            verdict = 'ok'
            for n_ in range(3):
                for combo in itertools.permutations(('A', 'B', 'C'), n_):
                    model = {'this._parameters._groups.size': n_, 'arg0': 'A', 'arg1._name': 'P', 'strempty:arg1._name': False, 'arg1._data_type': 2,
                             '#alias': {'group': '_groups'}}
                    for k_, nm in enumerate(combo):
                        model['this._parameters._groups[%d]._name' % k_] = nm
                    try:
                        events, end, und = a7.walk(f, model, follow_loops=True, max_steps=2000)
                    except a7.OutOfRange:
                        end, events = 'undecided', []
                    if end.startswith('undecided') or end == 'loop':
                        verdict = 'undecided'
                        break
                    created = g.node_of(create[0]) in events
                    if 'A' not in combo and not created and g.node_of(store[0]) in events:
                        verdict = 'with groups %s the group A is not created before the parameter is stored' % list(combo)
                        break
                if verdict != 'ok':
                    break
            if verdict == 'undecided':
                res.undecided('edit-order', 'c3d::parameter', f.loc(), 'the group is created under a test the rule cannot evaluate (neither the handler of the failed look-up nor a condition on the group names)',
                              function=f.sig, expr='order')
                return
            if verdict != 'ok':
                res.viol('edit-order', 'c3d::parameter', f.loc(), verdict, function=f.sig, expr='order')
                return
            cr_in_catch = True
        ok = cr_in_catch and store[0] in g.reach([create[0]]) and g.NEXIT not in g.reach([store[0]], avoid={upd[0]}) and g.dominates(store[0], upd[0])
        why = 'the group must be created only when the name look-up failed, then the parameter stored, then the header updated'
        # both refusals (unnamed, untyped) are decided before a group can be created
        if ok:
            tests = {'name': None, 'type': None}
            for i_ in f.all_nodes({'IfStmt'}):
                if not any(f.nodes[x]['k'] == 'CXXThrowExpr' for x in f.descendants(i_['then'])):
                    continue
                c_ = R.render(i_['cond'])
                kind_ = 'type' if ('_data_type' in c_ or '.type()' in c_) else ('name' if ('_name' in c_ or '.name()' in c_) else None)
                cvx = g.vertex_of.get(f.strip(i_['cond'], 'all'))
                if kind_ and cvx is not None and tests[kind_] is None:
                    tests[kind_] = cvx
            for kind_, what in (('name', 'unnamed'), ('type', 'untyped')):
                if tests[kind_] is None:
                    import validators
                    if any(validators.summary(prog, c_['callee'].get('usr')) for c_ in f.calls() if c_['callee'].get('inrepo') and g.vertex_of.get(c_['id']) is not None and g.dominates(g.vertex_of[c_['id']], create[0])):
                        continue   # a validating helper called before the creation: judged by C10's ordering rule
                    ok = False
                    why = 'nothing refuses an %s parameter before the group can be created: a refused call leaves a new empty group behind' % what
                    break
                if not g.dominates(tests[kind_], create[0]):
                    ok = False
                    why = 'the group can be created before the %s parameter is refused: a refused call leaves a new empty group behind' % what
                    break
        # the stored group is the one looked up by the caller's group name
        sn = f.nodes[g.node_of(store[0])]
        so = R.render(f.call_obj(sn))
        if ok and not (so == 'this._parameters.group(local:idx)' or re.match(r'^this\._parameters\.group\((arg0|local:\w+)\)$', so)):
            # the position handed back by a find-or-create helper: every return is the by-name index of the caller's group name,
            # or the last position right after the append
            hm = re.match(r'^this\._parameters\.group\((?:\(anonymous namespace\)::)?(\w+)\(this\._parameters,arg0\)\)$', so)
            hf = None
            if hm:
                for c_ in f.calls():
                    if c_['callee'].get('inrepo') and c_['callee']['name'] == hm.group(1) and creates_group(c_):
                        hf = prog.funcs.get(c_['callee']['usr'])
            if hf is not None:
                Rh = Renderer(hf)
                rets = [Rh.render(r_['ch'][0]) for r_ in hf.all_nodes({'ReturnStmt'}) if r_.get('ch')]
                good_ret = lambda r_: r_ in ('arg0.groupIdx(arg1)', '(arg0.nbGroups() - 1)', '(arg0._groups.size - 1)', '(arg0.groups().size - 1)')
                if rets and all(good_ret(r_) for r_ in rets):
                    pass
                else:
                    res.undecided('edit-order', 'c3d::parameter', f.loc(), 'the group position comes from %s, whose results (%s) the rule does not read [shape not read by the rule]' % (hf.name, rets[:3]), function=f.sig, expr='order')
                    return
            else:
                ok = False
                why = 'parameter is stored into %s' % so
        if ok and R.render(sn['args'][0]) != 'arg1':
            ok = False
            why = 'something other than the caller\'s parameter is stored (%s)' % R.render(sn['args'][0])
    if ok:
        res.ok('edit-order', 'c3d::parameter', f.loc(), 'checks -> find-or-create group (creation only after a failed look-up) -> Group::parameter(argument) -> updateHeader', function=f.sig, expr='order')
    else:
        res.viol('edit-order', 'c3d::parameter', f.loc(), why, function=f.sig, expr='order')


def validate_first_rule(prog, res):
    E = FX.get(prog)
    want = {'const std::vector<int> &': ('2', '_param_data_int'), 'const std::vector<float> &': ('4', '_param_data_float'),
            'const std::vector<std::basic_string<char>> &': ('-1', '_param_data_string')}
    n = 0
    for f in prog.fns(PR + '::set'):
        if len(f.params) != 2:
            # scalar overloads only delegate
            effs = [e for e in E.direct[f.usr] if e[1] == 'this']
            calls = [c for c in f.calls() if c['callee']['qname'] == PR + '::set']
            if effs or len(calls) != 1:
                res.viol('validate-first', 'Parameter::set(%s) delegates' % f.params[0]['type'], f.loc(), 'scalar overload must only delegate to a vector overload', function=f.sig, expr='delegate')
            else:
                res.ok('validate-first', 'Parameter::set(%s) delegates' % f.params[0]['type'], f.loc(), function=f.sig, expr='delegate', nontrivial=False)
            continue
        n += 1
        pt = f.params[0]['type']
        inst = 'Parameter::set(%s, dims)' % pt.replace('const ', '').replace(' &', '').replace('std::', '').replace('basic_string<char>', 'string')
        if pt not in want:
            res.undecided('validate-first', inst, f.loc(), 'unknown value type', function=f.sig, expr='type')
            continue
        g = f.events()
        R = Renderer(f)
        # the guard: if (!isDimensionConsistent(data.size(), dims)) throw std::range_error
        guard = None
        for i in f.all_nodes({'IfStmt'}):
            c = R.render(i['cond'])
            ths = [f.nodes[x] for x in f.descendants(i['then']) if f.nodes[x]['k'] == 'CXXThrowExpr']
            if re.match(r'^!\(this\.isDimensionConsistent\(arg0\.size,(.*)\)\)$', c) and ths and all(t.get('throw_t') == 'std::range_error' for t in ths):
                guard = i
                gdims = re.match(r'^!\(this\.isDimensionConsistent\(arg0\.size,(.*)\)\)$', c).group(1)
        gv = None
        if guard is None:
            # the test may live in a helper that hands back the validated dimensions
            from codec import substitute
            for c in f.calls():
                cf = prog.funcs.get(c['callee'].get('usr')) if c['callee'].get('inrepo') else None
                if cf is None or cf.implicit or cf.body is None or cf.qname.endswith('::isDimensionConsistent') or cf.qname.startswith(PR + '::set'):
                    continue
                Rc = Renderer(cf)
                sub = {'arg%d' % k: R.render(a) for k, a in enumerate(f.call_args(c))}
                if f.call_obj(c) is not None:
                    sub['this'] = R.render(f.call_obj(c))
                for i in cf.all_nodes({'IfStmt'}):
                    cc = Rc.render(i['cond'])
                    ths = [cf.nodes[x] for x in cf.descendants(i['then']) if cf.nodes[x]['k'] == 'CXXThrowExpr']
                    m = re.match(r'^!\((.*)\.isDimensionConsistent\((.*),(.*)\)\)$', cc)
                    if not (m and ths and all(t.get('throw_t') == 'std::range_error' for t in ths)):
                        continue
                    obj_, a_, b_ = substitute(m.group(1), sub), substitute(m.group(2), sub), m.group(3)
                    rets = [Rc.render(r['ch'][0]) for r in cf.all_nodes({'ReturnStmt'}) if r['ch']]
                    if re.sub(r'^\*\((.*)\)$', r'\1', obj_) == 'this' and a_ == 'arg0.size' and rets and all(r == b_ for r in rets):
                        guard = c
                        gdims = R.render(c['id'])
                        gv = g.vertex_of.get(c['id'])
        helper_stores_dims = False
        if guard is None:
            # or in a helper of the class itself that tests and then stores the dimensions (called on this object)
            from codec import substitute
            for c in f.calls():
                cf = prog.funcs.get(c['callee'].get('usr')) if c['callee'].get('inrepo') else None
                if cf is None or cf.implicit or cf.body is None or cf.cls != PR or cf.qname.endswith('::isDimensionConsistent') or cf.qname.startswith(PR + '::set('):
                    continue
                if cf.name == 'set' or not (f.call_obj(c) is None or R.render(f.call_obj(c)) in ('this', '*(this)')):
                    continue
                Rc = Renderer(cf)
                sub = {'arg%d' % k: R.render(a) for k, a in enumerate(f.call_args(c))}
                gc = cf.events()
                for i in cf.all_nodes({'IfStmt'}):
                    cc = Rc.render(i['cond'])
                    ths = [cf.nodes[x] for x in cf.descendants(i['then']) if cf.nodes[x]['k'] == 'CXXThrowExpr']
                    m = re.match(r'^!\(this\.isDimensionConsistent\((.*),(.*)\)\)$', cc)
                    if not (m and ths and all(t.get('throw_t') == 'std::range_error' for t in ths)):
                        continue
                    if substitute(m.group(1), sub) != 'arg0.size':
                        continue
                    # inside the helper nothing is stored before its test
                    tv = gc.vertex_of.get(cf.strip(i['cond'], 'all'))
                    early = [e for e in E.events_of(cf, 'this') if e[1] == 'this' and e[3] != 'io' and not (tv is not None and gc.vertex_of.get(e[0]) is not None and gc.dominates(tv, gc.vertex_of.get(e[0])))]
                    if early:
                        continue
                    guard = c
                    gdims = R.render(c['id'])
                    gv = g.vertex_of.get(c['id'])
                    helper_stores_dims = any(e[2] and e[2][0] == '_dimension' for e in E.events_of(cf, 'this'))
        if guard is None:
            import maythrow as MT
            M = MT.get(prog)
            can = set()
            for c in f.calls():
                can |= set(M.raised_at(f, c))
            can |= {t.get('throw_t') for t in f.all_nodes({'CXXThrowExpr'})}
            if 'std::range_error' not in can:
                res.viol('validate-first', inst, f.loc(), 'nothing in the setter can refuse with std::range_error: no `if (!isDimensionConsistent(data.size(), dims)) throw std::range_error` guard',
                         function=f.sig, expr='guard')
            else:
                res.undecided('validate-first', inst, f.loc(), 'the consistency test is not in a form the rule reads (`if (!isDimensionConsistent(data.size(), dims)) throw std::range_error` here or in a helper returning the validated dimensions)',
                              function=f.sig, expr='guard')
            continue
        if gv is None:
            gv = g.vertex_of.get(f.strip(guard['cond'], 'all'))
        bad = None
        stores = {}
        for e in E.events_of(f, 'this'):
            nid, root, path, kind = e
            if root != 'this' or kind == 'io':
                continue
            v = g.vertex_of.get(nid)
            if v is None or gv is None or not g.dominates(gv, v):
                bad = 'member %s is modified before the consistency test (%s)' % ('.'.join(path), f.loc(nid))
                break
        for e in E.direct[f.usr]:
            nid, root, path, kind = e
            if root != 'this':
                continue
            v = g.vertex_of.get(nid)
            if bad:
                break
            node = f.nodes[nid]
            if node['k'] == 'BinaryOperator':
                stores[path[0]] = R.render(node['ch'][1])
            elif node['k'] == 'CXXOperatorCallExpr':
                stores[path[0]] = R.render(node['args'][1])
        if bad:
            res.viol('validate-first', inst, f.loc(guard['id']), bad + ': a refused call would leave the parameter changed', function=f.sig, expr='order')
            continue
        tconst, field = want[pt]
        problems = []
        if re.sub(r'^\([^)]*\)', '', stores.get('_data_type', '')) != tconst:
            problems.append('stores type %s, the overload\'s element type is %s' % (stores.get('_data_type'), tconst))
        if stores.get(field) != 'arg0':
            problems.append('%s <- %s (expected the argument)' % (field, stores.get(field)))
        if set(stores) - {'_data_type', field, '_dimension'}:
            problems.append('also writes %s' % sorted(set(stores) - {'_data_type', field, '_dimension'}))
        # dimension: the validated dims (for strings: with the longest string length prepended)
        dimsrc = re.sub(r'^std::move\((.*)\)$', r'\1', stores.get('_dimension', ''))
        if helper_stores_dims:
            pass   # the helper that made the test stored the dimensions it tested
        elif field != '_param_data_string':
            if dimsrc != gdims:
                problems.append('_dimension <- %s, the validated dimensions are %s' % (dimsrc, gdims))
        else:
            ins = [c for c in f.calls() if c['callee']['name'] == 'insert' and R.render(f.call_obj(c)) == dimsrc]
            okins = len(ins) == 1 and (dimsrc + '.begin()') in R.render(ins[0]['args'][0]) and R.render(ins[0]['args'][1]).startswith('local:')
            if not okins:
                # the same list built front to back: push_back(longest), then the validated dimensions appended at the end
                pbs = [c for c in f.calls() if c['callee']['name'] in ('push_back', 'emplace_back') and f.call_obj(c) is not None and R.render(f.call_obj(c)) == dimsrc]
                app = [c for c in ins if (dimsrc + '.end()') in R.render(c['args'][0]) and len(c['args']) == 3 and R.render(c['args'][1]) == gdims + '.begin()' and R.render(c['args'][2]) == gdims + '.end()']
                gq = f.events()
                if len(pbs) == 1 and len(app) == 1 and R.render(pbs[0]['args'][0]).startswith('local:') and gq.vertex_of.get(app[0]['id']) in gq.reach([gq.vertex_of.get(pbs[0]['id'])]):
                    okins = True
            if not okins and (ins or [c for c in f.calls() if f.call_obj(c) is not None and R.render(f.call_obj(c)) == dimsrc and not c['callee'].get('const')]):
                und_dims = True
                res.undecided('validate-first', inst + ': stored dimensions', f.loc(), 'the stored dimension list is built in a form the rule does not read (known: insert of the longest length at begin(), or '
                              'push_back of it followed by an append of the validated dimensions) [shape not read by the rule]', function=f.sig, expr='stores-dims')
            elif not okins:
                problems.append('string overload must store the validated dimensions with the longest string length inserted in front')
        if problems:
            res.viol('validate-first', inst, f.loc(), '; '.join(problems), function=f.sig, expr='stores')
        else:
            res.ok('validate-first', inst, f.loc(), 'type %s, values and dimensions assigned only after the consistency test (std::range_error otherwise)' % tconst, function=f.sig, expr='all')
    res.minimum('typed vector setters', n, 3)


def longest_string_rule(prog, res, rule='validate-first'):
    """the leading dimension stored for string values is the length of the longest *stored* string:
    first_dim = max over data[i].size() in a normal-form loop over [0, data.size)"""
    f = [x for x in prog.fns(PR + '::set') if len(x.params) == 2 and 'basic_string' in x.params[0]['type']]
    if len(f) != 1:
        raise AnalysisBroken('Parameter::set(vector<string>, dims) vanished')
    f = f[0]
    R = Renderer(f)
    ins = [c for c in f.calls() if c['callee']['name'] == 'insert' and c['callee'].get('classq') == 'std::vector']
    inst = 'Parameter::set(vector<string>): leading dimension = longest stored string'
    if len(ins) != 1:
        res.undecided(rule, inst, f.loc(), 'cannot find the insertion of the string length into the dimensions', function=f.sig, expr='longest')
        return
    if len(ins[0]['args']) == 3 and '.end()' in R.render(ins[0]['args'][0]):
        # built front to back: push_back(length) first, the dimensions appended afterwards
        tgt = R.render(f.call_obj(ins[0]))
        pbs = [c for c in f.calls() if c['callee']['name'] in ('push_back', 'emplace_back') and f.call_obj(c) is not None and R.render(f.call_obj(c)) == tgt]
        if len(pbs) != 1:
            res.undecided(rule, inst, f.loc(ins[0]['id']), 'cannot find the length that is put in front of the dimensions', function=f.sig, expr='longest')
            return
        v = R.render(pbs[0]['args'][0])
    else:
        v = R.render(ins[0]['args'][1])
    m = re.match(r'^local:(\w+)$', v)
    # the length taken from std::max_element: without a comparator it is the *largest string in dictionary order*, not the longest
    fam_ = [f] + [prog.funcs[c_['callee']['usr']] for c_ in f.calls() if c_['callee'].get('inrepo') and c_['callee'].get('usr') in prog.funcs and
                  (prog.funcs[c_['callee']['usr']].rec.get('internal') or '(anonymous namespace)' in prog.funcs[c_['callee']['usr']].qname) and prog.funcs[c_['callee']['usr']].body is not None]
    for h_ in fam_:
        for c_ in h_.calls():
            if c_['callee'].get('qname') != 'std::max_element':
                continue
            a_ = h_.call_args(c_)
            if len(a_) == 2:
                res.viol(rule, inst, h_.loc(c_['id']), 'the length put in front of the dimensions is the size of std::max_element(first, last) without a comparator: that is the largest string in dictionary order, '
                         'not the longest one ("b" wins over "aaaa"), so longer strings are cut when the parameter is written', function=f.sig, expr='longest')
                return
            lam_ = h_.nodes[h_.strip(a_[2], 'all')]
            rets_ = [Renderer(h_).render(r_['ch'][0]) for r_ in h_.all_nodes({'ReturnStmt'}) if r_.get('ch') and r_['id'] in h_.descendants(lam_['id'])] if lam_['k'] == 'LambdaExpr' else []
            if len(rets_) == 1 and re.match(r'^\(?\w[\w:\[\]]*\.size < \w[\w:\[\]]*\.size\)?$', rets_[0].replace('()', '')):
                res.ok(rule, inst, h_.loc(c_['id']), 'std::max_element with a comparator on the sizes', function=f.sig, expr='longest')
                return
    if not m:
        res.undecided(rule, inst, f.loc(ins[0]['id']), 'inserted length is %s: computed by something the rule cannot read' % v, function=f.sig, expr='longest')
        return
    asg = [n for n in f.all_nodes({'BinaryOperator'}) if n['op'] == '=' and R.render(n['ch'][0]) == v]
    # what is stored
    stored = [R.render(n['args'][1]) for n in f.all_nodes({'CXXOperatorCallExpr'}) if n.get('op') == '=' and R.render(n['args'][0]) == 'this._param_data_string']
    if len(stored) != 1:
        res.undecided(rule, inst, f.loc(), 'cannot find the single store of the strings (%s)' % stored, function=f.sig, expr='longest')
        return
    S = re.escape(stored[0])
    from loops import loops_around
    good = []
    for a in asg:
        rhs = R.render(a['ch'][1])
        mm = re.match(r'^' + S + r'\[(?:\(unsigned long\))?local:(\w+)\]\.size$', rhs)
        la = loops_around(f, a['id'], R)
        guard = None
        for p in f.ancestors(a['id']):
            if f.nodes[p]['k'] == 'IfStmt':
                guard = R.render(f.nodes[p]['cond'])
                break
        if mm and la and la[0]['name'] == mm.group(1) and la[0]['bound'] == stored[0] + '.size' and guard in ('(%s > %s)' % (rhs, v), '(%s < %s)' % (v, rhs)):
            good.append(a)
            continue
        # v = std::max(v, X[i].size())  in either argument order
        mx = re.match(r'^std::max\((.*),(.*)\)$', rhs)
        if mx and la:
            x, y = mx.group(1), mx.group(2)
            other = y if x == v else (x if y == v else None)
            mo = re.match(r'^' + S + r'\[(?:\(unsigned long\))?local:(\w+)\]\.size$', other or '')
            if mo and la[0]['name'] == mo.group(1) and la[0]['bound'] == stored[0] + '.size':
                good.append(a)
    init0 = False
    from paths import local_init
    for n in f.all_nodes({'DeclStmt'}):
        for d in n['decls']:
            if 'local:' + d['name'] == v and 'init' in d and f.nodes[f.strip(d['init'], 'all')].get('cv') == '0':
                init0 = True
    if asg and len(good) == len(asg) and init0:
        res.ok(rule, inst, f.loc(asg[0]['id']), 'running maximum of data[i].size() over all i', function=f.sig, expr='longest')
    elif not asg:
        res.undecided(rule, inst, f.loc(), 'the length is not computed by a running maximum in this function', function=f.sig, expr='longest')
    else:
        res.viol(rule, inst, f.loc(asg[0]['id']), 'the declared string width is not the maximum of the lengths of the strings that are stored (%s): a cell may be narrower than its text' %
                 [R.render(a['ch'][1]) for a in asg], function=f.sig, expr='longest')


def consistency_width_rule(prog, res):
    f0 = prog.fn(PR + '::isDimensionConsistent', nparams=2)
    n = 0
    fam = [f0]
    for c_ in f0.calls():
        h = prog.funcs.get(c_['callee'].get('usr')) if c_['callee'].get('inrepo') else None
        if h is not None and h.body is not None and h not in fam and (h.rec.get('internal') or '(anonymous namespace)' in h.qname or (h.cls == PR and h.rec.get('access') in ('private', 'protected'))):
            fam.append(h)
    for f in fam:
        n += _consistency_width(prog, res, f)
    res.minimum('product accumulators in isDimensionConsistent', n, 1)


def _consistency_width(prog, res, f):
    R = Renderer(f)
    # every comparison that decides the return value compares full-width values; products that feed a
    # comparison with the element count are accumulated in a type at least as wide as the dimensions
    n = 0
    for d in [d for s in f.all_nodes({'DeclStmt'}) for d in s['decls']]:
        muls = [m for m in f.all_nodes({'CompoundAssignOperator'}) if m['op'] == '*=' and R.render(m['ch'][0]) == 'local:' + d['name']]
        if not muls:
            continue
        n += 1
        # where is the accumulated product used?
        uses = []
        for c in f.all_nodes({'BinaryOperator'}):
            if c['op'] in ('==', '!=', '<', '>', '<=', '>=') and ('local:' + d['name']) in (R.render(c['ch'][0]), R.render(c['ch'][1]), re.sub(r'^\([^)]*\)', '', R.render(c['ch'][0])), re.sub(r'^\([^)]*\)', '', R.render(c['ch'][1]))):
                other = R.render(c['ch'][1]) if ('local:' + d['name']) in R.render(c['ch'][0]) else R.render(c['ch'][0])
                uses.append(other)
        wide = d.get('tc') == 'u' and (d.get('tw') or 0) >= 64
        vs_count = any('arg0' in u for u in uses)
        inst = 'product accumulator `%s`' % d['name']
        if wide:
            res.ok('consistency', inst, f.loc(), '%s (%s bits)' % (d['type'], d.get('tw')), function=f.sig, expr='acc:' + ('count' if vs_count else 'zero'))
        else:
            res.viol('consistency', inst, f.loc(),
                     'the product of the dimensions is accumulated in %s (%s bits) and then compared with %s: products that differ by a multiple of 2^%s are accepted, '
                     'so a shape that does not match the element count passes the check' % (d['type'], d.get('tw'), uses or ['0'], d.get('tw')),
                     function=f.sig, expr='acc:' + ('count' if vs_count else 'zero'))
    # std::accumulate(first, last, init, op): the accumulator has the type of `init`
    for c in f.calls():
        if c['callee'].get('qname') == 'std::accumulate' and len(f.call_args(c)) >= 3:
            n += 1
            ini = f.nodes[f.strip(f.call_args(c)[2], 'noop')]
            inst = 'product accumulator of std::accumulate'
            if ini.get('tc') == 'u' and (ini.get('tw') or 0) >= 64:
                res.ok('consistency', inst, f.loc(c['id']), 'initial value of type %s (%s bits): the accumulation is done in that type' % (ini.get('t'), ini.get('tw')), function=f.sig, expr='acc:accumulate')
            else:
                res.viol('consistency', inst, f.loc(c['id']), 'std::accumulate accumulates in the type of its initial value, %s (%s/%s bits): the product of the dimensions is truncated' %
                         (ini.get('t'), ini.get('tc'), ini.get('tw')), function=f.sig, expr='acc:accumulate')
    return n


def lock_rule(prog, res):
    E = FX.get(prog)
    for cls in (G, PR):
        for name, val in (('lock', ('true', '1')), ('unlock', ('false', '0'))):
            f = prog.fn('%s::%s' % (cls, name), nparams=0)
            R = Renderer(f)
            asg = [(R.render(n['ch'][0]), R.render(n['ch'][1])) for n in f.all_nodes({'BinaryOperator'}) if n['op'] == '=']
            effs = eff(prog, f)
            if effs == [('this', ('_isLocked',), 'assign')] and len(asg) == 1 and asg[0][0] == 'this._isLocked' and asg[0][1] in val:
                res.ok('lock', '%s::%s' % (cls.split('::')[-1], name), f.loc(), 'writes exactly the flag', function=f.sig, expr='flag')
            elif effs == [('this', ('_isLocked',), 'assign')]:
                # only the flag is written, through a member / in another spelling: the value it ends with, from either start
                import a7
                finals = []
                for start in (False, True):
                    st_ = {'fields': True}
                    try:
                        _e, end_, _u = a7.walk(f, {'this._isLocked': start}, follow_loops=True, max_steps=300, state=st_)
                        finals.append(st_['model'].get('this._isLocked') if end_ == 'NEXIT' else None)
                    except Exception:
                        finals.append(None)
                want_ = (name == 'lock')
                if all(isinstance(x, (bool, int)) and x is not None for x in finals) and all(bool(x) == want_ for x in finals):
                    res.ok('lock', '%s::%s' % (cls.split('::')[-1], name), f.loc(), 'writes exactly the flag (final value %s from either start)' % want_, function=f.sig, expr='flag')
                elif all(isinstance(x, (bool, int)) and x is not None for x in finals):
                    res.viol('lock', '%s::%s' % (cls.split('::')[-1], name), f.loc(), '%s leaves _isLocked = %s (from unlocked / locked), documented: %s' % (name, [bool(x) for x in finals], want_),
                             function=f.sig, expr='flag', sure=True)
                else:
                    res.undecided('lock', '%s::%s' % (cls.split('::')[-1], name), f.loc(), 'the value the flag ends with cannot be evaluated [shape not read by the rule]', function=f.sig, expr='flag')
            else:
                res.viol('lock', '%s::%s' % (cls.split('::')[-1], name), f.loc(), '%s must only set _isLocked = %s; effects %s' % (name, val[0], [FX.fmt(e) for e in effs]), function=f.sig, expr='flag')
    for name in ('lockGroup', 'unlockGroup'):
        f = prog.fn('ezc3d::c3d::' + name, nparams=1)
        effs = eff(prog, f)
        if effs == [('this', ('_parameters', '_groups', '[]', '_isLocked'), 'assign')]:
            res.ok('lock', 'c3d::' + name, f.loc(), 'only the lock flag of one group', function=f.sig, expr='flag')
        else:
            res.viol('lock', 'c3d::' + name, f.loc(), 'locking/unlocking a group changes more than its flag: %s' % [FX.fmt(e) for e in effs], function=f.sig, expr='flag')


def overload_hazard_rule(prog, res):
    """an overload set offering both f(bool) and f(std::string) at the same position, without f(const char *): a string
    literal (or any const char *) prefers the standard pointer-to-bool conversion to the user-defined conversion to
    std::string, so the text handed in is stored as `true`"""
    import collections
    sets = collections.defaultdict(list)
    for f in prog.repo_funcs():
        if f.kind in ('method', 'ctor') and f.rec.get('access') == 'public' and not f.implicit:
            sets[(f.qname, len(f.rec.get('params', [])))].append(f)
    n = 0
    for (q, ar), fs in sorted(sets.items()):
        if ar == 0 or len(fs) < 2:
            continue
        n += 1
        for k in range(ar):
            ts = [(f.rec['params'][k]['type'].replace('const ', '').replace(' &', '').strip(), f) for f in fs]
            hasbool = [f for t, f in ts if t in ('bool', '_Bool')]
            hasstr = [f for t, f in ts if t in ('std::basic_string<char>', 'std::string')]
            hascp = [f for t, f in ts if t in ('char *',)]
            if hasbool and hasstr and not hascp:
                res.viol('overload-hazard', '%s (parameter %d)' % ('::'.join(q.split('::')[-2:]), k), hasbool[0].loc(), 'the overload set offers (bool) and (std::string) but not (const char *): a string literal argument '
                         'selects the bool overload (pointer-to-bool is a standard conversion, to std::string a user-defined one) and the text is stored as `true`', function=hasbool[0].sig, expr='overload:' + q.split('::')[-1])
    res.ok('overload-hazard', 'public overload sets', 'include/', '%d overload sets screened for (bool)/(std::string) without (const char *)' % n, function='', expr='overloads', nontrivial=False)
    res.minimum('public overload sets', n, 10)


def run(prog, tier):
    res = Result('C09', tier,
                 'Effect sets (A3) of Group::parameter, Parameters::group and c3d::parameter against the allowed sets; the replace index comes from the '
                 'exact-name search and append happens only when nothing matched; c3d::parameter\'s order of steps on the CFG; every typed setter assigns only '
                 'after the consistency test (std::range_error), with the type constant and vector of its overload; isDimensionConsistent accumulates its products '
                 'in 64-bit unsigned arithmetic; lock toggles write exactly one flag.',
                 assumptions=['exact string equality through std::string::compare / operator=='],
                 not_decided=['the arithmetic of isDimensionConsistent as a predicate over all shapes (product equals element count, empty cases): a value-level statement',
                              'the string rule "leading dimension = longest string" as values'])
    allowed_effects_rule(prog, res)
    gp = prog.fn(G + '::parameter', ptypes=['const ezc3d::ParametersNS::GroupNS::Parameter &'])
    replace_or_append(prog, res, gp, '_parameters', r'^this\.parameter\(local:%s\)\._name$', 'arg0._name')
    pg = prog.fn(PS + '::group', ptypes=['const ezc3d::ParametersNS::GroupNS::Group &'])
    replace_or_append(prog, res, pg, '_groups', r'^this\.group\(local:%s\)\._name$', 'arg0._name')
    edit_order_rule(prog, res)
    validate_first_rule(prog, res)
    longest_string_rule(prog, res)
    consistency_width_rule(prog, res)
    lock_rule(prog, res)
    setters.rule(prog, res, {G, PR}, minimum=3)
    overload_hazard_rule(prog, res)
    # the element a later look-up by name finds is the one the replace-or-append search would replace: both are exact-name,
    # first-match searches (C11's index-by-name rule on Group::parameterIdx / Parameters::groupIdx)
    import p_c11
    for o in p_c11.run(prog, 'quick').obs:
        if o['rule'] == 'index-by-name' and ('parameterIdx' in o.get('function', '') or 'groupIdx' in o.get('function', '')):
            res.obs.append(dict(o, rule='lookup-agrees'))
    return res
