"""Thorough tier: on top of the quick rules
  1. configuration matrix: the same rules on facts extracted under {gnu++11, gnu++17} x {-UNDEBUG, -DNDEBUG};
     a verdict that depends on the configuration is reported;
  2. self-test of the rules that serve the property: every must-fire variant (selftest/<id>/fire-*.patch
     and the confirmed seeded changes that target the property) is applied to a scratch copy of /repo's
     sources, must still parse, and the check must report a violation; every must-stay-silent variant
     (quiet-*.patch: behaviour-preserving refactors) must leave it silent.  A self-test failure is
     exit 2 (checker broken), never a violation of the property;
  3. generic cross-reference (clang-tidy bugprone/analyzer, cppcheck): counts in the evidence only.
Scratch copies live under $TMPDIR and are removed immediately."""
import glob
import json
import os
import shutil
import subprocess
import tempfile
import time
import facts
from result import OK, VIOL, UNDEC

VERIF = facts.VERIF


def summarise(res):
    return {(o['rule'], o['function'], o['expr']): o['verdict'] for o in res.obs}


def config_matrix(mod, prog, res):
    base = summarise(res)
    out = []
    for std in ('-std=gnu++11', '-std=gnu++17'):
        for nd in ('-UNDEBUG', '-DNDEBUG'):
            if (std, nd) == ('-std=gnu++11', '-UNDEBUG'):
                continue
            flags = [f for f in (std, nd)]
            try:
                p2 = facts.load(prog.repo, extra_flags=flags)
                # base flags come first; later flags win for -std / NDEBUG
                r2 = mod.run(p2, 'quick')
                s2 = summarise(r2)
                diff = [(k, base.get(k), v) for k, v in s2.items() if base.get(k) != v and (v == VIOL or base.get(k) == VIOL)]
                out.append({'flags': flags, 'obligations': len(s2), 'verdict_differences': len(diff)})
                for k, a, b in diff[:5]:
                    res.viol('config-matrix', '%s under %s' % (k[0], ' '.join(flags)), 'src/', 'verdict of %s / %s is %s under the default flags and %s under %s' % (k[1][-60:], k[2][-60:], a, b, flags),
                             function=k[1], expr='config:%s:%s' % (k[0], k[2][:40]))
            except facts.AnalysisBroken as e:
                out.append({'flags': flags, 'error': str(e)[:200]})
                res.undecided('config-matrix', ' '.join(flags), 'src/', 'extraction failed: %s' % str(e)[:200], function='', expr='config:' + ' '.join(flags))
    res.ok('config-matrix', 'rules re-run under 3 further configurations', 'src/', json.dumps(out), function='', expr='matrix')
    res.info['configuration_matrix'] = out


def scratch_copy(repo):
    d = tempfile.mkdtemp(prefix='ezc3d-selftest-')
    for sub in ('src', 'include', 'binding'):
        shutil.copytree(os.path.join(repo, sub), os.path.join(d, sub))
    shutil.copy(os.path.join(repo, 'CMakeLists.txt'), d)
    return d


def apply_patch(d, patch):
    r = subprocess.run(['patch', '-p1', '-s', '--no-backup-if-mismatch', '-i', patch], cwd=d, capture_output=True, text=True)
    if r.returncode != 0:
        r = subprocess.run(['git', 'apply', '--unsafe-paths', '--directory=' + d, patch], capture_output=True, text=True)
    return r.returncode == 0, (r.stdout + r.stderr)[-300:]


def run_variant(mod, repo, patch):
    d = scratch_copy(repo)
    try:
        ok, msg = apply_patch(d, patch)
        if not ok:
            return 'patch-failed', msg, []
        try:
            p2 = facts.load(d, use_cache=False)
            r2 = mod.run(p2, 'quick')
        except facts.AnalysisBroken as e:
            return 'undecided', str(e)[:200], []
        import result
        known = [k for k in result.load_known() if k.get('property') == r2.pid and k.get('status') == 'open']
        viols = []
        for o in r2.obs:
            if o['verdict'] == VIOL and result.is_known(o, known) is None:
                viols.append('%s: %s at %s' % (o['rule'], o['instance'], o['where'].replace(d + '/', '')))
        und = [o for o in r2.obs if o['verdict'] == UNDEC]
        broken = [m for m in r2.minimums if m[1] < m[2]]
        if viols:
            return 'fired', '', viols
        if und or broken:
            return 'undecided', '; '.join(['%s %s' % (o['rule'], o['instance']) for o in und][:3] + ['%s below minimum' % m[0] for m in broken][:2]), []
        return 'silent', '', []
    finally:
        shutil.rmtree(d, ignore_errors=True)


def selftest(mod, prog, res):
    pid = res.pid
    fire = sorted(glob.glob(os.path.join(VERIF, 'selftest', pid, 'fire-*.patch')))
    quiet = sorted(glob.glob(os.path.join(VERIF, 'selftest', pid, 'quiet-*.patch')))
    seeded = []
    for d in sorted(glob.glob(os.path.join(VERIF, 'seeded', '*'))):
        try:
            meta = json.load(open(os.path.join(d, 'meta.json')))
        except (OSError, ValueError):
            continue
        exp = meta.get('expected_checks')
        if exp is not None and pid in exp:
            seeded.append(os.path.join(d, 'patch.diff'))
    summary = {'must_fire': 0, 'fired': 0, 'must_stay_silent': 0, 'silent': 0, 'failures': []}
    for p in fire + seeded:
        st, msg, viols = run_variant(mod, prog.repo, p)
        summary['must_fire'] += 1
        name = os.path.relpath(p, VERIF)
        if st == 'fired':
            summary['fired'] += 1
            res.ok('selftest', 'must-fire ' + name, name, viols[0][:200], function='', expr='fire:' + name, nontrivial=False)
        else:
            summary['failures'].append('%s: %s %s' % (name, st, msg))
            res.undecided('selftest', 'must-fire ' + name, name, 'variant did not fire (%s %s): the rule is broken' % (st, msg), function='', expr='fire:' + name)
    for p in quiet:
        st, msg, viols = run_variant(mod, prog.repo, p)
        summary['must_stay_silent'] += 1
        name = os.path.relpath(p, VERIF)
        if st == 'silent':
            summary['silent'] += 1
            res.ok('selftest', 'must-stay-silent ' + name, name, 'no violation', function='', expr='quiet:' + name, nontrivial=False)
        else:
            summary['failures'].append('%s: %s %s %s' % (name, st, msg, viols[:1]))
            res.undecided('selftest', 'must-stay-silent ' + name, name, 'behaviour-preserving variant is not accepted (%s %s %s): the rule is broken' % (st, msg, viols[:1]), function='', expr='quiet:' + name)
    res.info['selftest'] = summary


def cross_reference(prog, res):
    out = {}
    t0 = time.time()
    units = prog.info['units']
    flags = [f for f in prog.info['flags'] if f != '-w']
    try:
        r = subprocess.run(['clang-tidy', '--quiet', '-checks=-*,bugprone-*,clang-analyzer-core*,clang-analyzer-cplusplus*,cppcoreguidelines-pro-type-member-init'] + units + ['--'] + flags,
                           capture_output=True, text=True, timeout=600)
        warns = [l for l in r.stdout.splitlines() if ' warning: ' in l and prog.repo in l]
        by = {}
        for w in warns:
            k = w.rsplit('[', 1)[-1].rstrip(']')
            by[k] = by.get(k, 0) + 1
        out['clang_tidy'] = {'warnings_in_repo_files': len(warns), 'by_check': by}
    except (OSError, subprocess.TimeoutExpired) as e:
        out['clang_tidy'] = {'error': str(e)[:100]}
    try:
        r = subprocess.run(['cppcheck', '--quiet', '--std=c++11', '--enable=warning,portability', '-I', os.path.join(prog.repo, 'include'), os.path.join(prog.repo, 'src')],
                           capture_output=True, text=True, timeout=600)
        lines = [l for l in r.stderr.splitlines() if ': ' in l and ('error' in l or 'warning' in l)]
        out['cppcheck'] = {'findings': len(lines), 'first': lines[:5]}
    except (OSError, subprocess.TimeoutExpired) as e:
        out['cppcheck'] = {'error': str(e)[:100]}
    out['wall_s'] = round(time.time() - t0, 1)
    res.info['generic_cross_reference_information_only'] = out


def extend(mod, prog, res):
    config_matrix(mod, prog, res)
    selftest(mod, prog, res)
    cross_reference(prog, res)
