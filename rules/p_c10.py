"""C10 — a refused call leaves the object unchanged (partial claim): validate-then-mutate.

In every public mutator of c3d, in the typed Parameter::set overloads and in the group/parameter
insertion functions: (R1) no explicit throw of the function itself is reachable after its first
effect on state rooted at `this`; (R2) every call reachable after the first effect whose may-throw
summary (A4, after the validated-index / forall-guard / guard-subsumption discharge lemmas) is
non-empty is either a listed infeasible case (spec/invariants.json), a listed known finding, or a
violation."""
import json
import re
import os
from facts import AnalysisBroken, VERIF, CALL_KINDS
from result import Result
from paths import Renderer
import effects as FX
import maythrow as MT

UPDATERS = ('ezc3d::c3d::updateHeader', 'ezc3d::c3d::updateParameters')


def load_invariants():
    p = os.path.join(VERIF, 'spec', 'invariants.json')
    with open(p) as fh:
        return json.load(fh)


def targets(prog):
    fs = list(prog.public_mutators('ezc3d::c3d'))
    P = 'ezc3d::ParametersNS::GroupNS::Parameter'
    for f in prog.fns(P + '::set'):
        if len(f.params) == 2:
            fs.append(f)
    fs.append(prog.fn('ezc3d::ParametersNS::GroupNS::Group::parameter', ptypes=['const ezc3d::ParametersNS::GroupNS::Parameter &']))
    return fs


def guard_subsumed(prog, f, call, cls):
    """the callee throws `cls` under a guard that the caller has already tested (and thrown on)
    before: callee guard, with formals replaced by actuals, equals a dominating caller guard whose
    then-branch throws"""
    cf = prog.funcs.get(call['callee']['usr'])
    if cf is None:
        return False
    Rc = Renderer(cf)
    Rf = Renderer(f)
    g = f.events()
    cv = g.vertex_of.get(call['id'])
    sub = {}
    obj = f.call_obj(call)
    if obj is not None:
        sub['this'] = Rf.render(obj)
    for i, a in enumerate(f.call_args(call)):
        sub['arg%d' % i] = Rf.render(a)
    import codec
    callee_guards = []
    for n in cf.all_nodes({'IfStmt'}):
        ths = [cf.nodes[x] for x in cf.descendants(n['then']) if cf.nodes[x]['k'] == 'CXXThrowExpr']
        if ths and all(t.get('throw_t') == cls for t in ths):
            callee_guards.append(codec.substitute(Rc.render(n['cond']), sub))
    # every throw of cls in the callee must be under such a guard
    nthrows = sum(1 for n in cf.all_nodes({'CXXThrowExpr'}) if n.get('throw_t') == cls)
    if not callee_guards or nthrows != len(callee_guards):
        return False
    mine = []
    for n in f.all_nodes({'IfStmt'}):
        ths = [x for x in f.descendants(n['then']) if f.nodes[x]['k'] == 'CXXThrowExpr']
        iv = g.vertex_of.get(f.strip(n['cond'], 'all'))
        if ths and iv is not None and cv is not None and g.dominates(iv, cv):
            mine.append(Rf.render(n['cond']))
    return all(cg in mine for cg in callee_guards)


def group_name_stored_as_given(prog):
    """every store to Group::_name (constructors, name setter) assigns the unmodified argument and nothing
    modifies _name in place"""
    import p_c18 as _c18
    G_ = 'ezc3d::ParametersNS::GroupNS::Group'
    E = FX.get(prog)
    for f, nid, rhs in _c18.field_writes(prog, G_, '_name'):
        if f.implicit or f.qname.endswith('::read'):
            continue
        if rhs is None:
            return False
        r = Renderer(f).render(rhs)
        r = re.sub(r'^std::move\((.*)\)$', r'\1', r)       # moving the argument into the member stores it as given
        if not re.match(r'^arg\d+$', r) and r != 'arg0._name':
            return False
    for f in prog.repo_funcs():
        if f.cls != G_ or f.qname.endswith('::read') or f.implicit:
            continue
        for n in f.calls():
            if n['callee'].get('qname') in ('ezc3d::removeTrailingSpaces',) or n['callee'].get('name') in ('erase', 'resize', 'pop_back', 'append', 'operator+='):
                for a in list(f.call_args(n)) + ([f.call_obj(n)] if f.call_obj(n) is not None else []):
                    if Renderer(f).render(a) == 'this._name':
                        return False
    return True


def _unread_validation_loop(f, site):
    """a loop before `site` whose body only tests and throws (a validation loop) and that is not a counted `for (i = 0; i < n; ++i)`"""
    from loops import normal_for
    g = f.events()
    sv = g.vertex_of.get(site)
    for lp in f.all_nodes({'ForStmt', 'WhileStmt', 'DoStmt', 'CXXForRangeStmt'}):
        if site in f.descendants(lp['id']):
            continue
        if lp['k'] == 'ForStmt':
            nf = normal_for(f, lp['id'])
            if nf is not None and nf.get('start_cv') == '0' and nf.get('op') == '<':
                continue
        throws = [x for x in f.descendants(lp['id']) if f.nodes[x]['k'] == 'CXXThrowExpr']
        effects = [x for x in f.descendants(lp['id']) if f.nodes[x]['k'] == 'CXXMemberCallExpr' and not f.nodes[x]['callee'].get('const') and
                   str(f.nodes[x]['callee'].get('classq', '')).startswith('std::vector')]
        if throws and not effects:
            inside = [g.vertex_of[x] for x in f.descendants(lp['id']) if g.vertex_of.get(x) is not None and f.nodes[x]['k'] != 'CXXThrowExpr' and x not in set(y for t_ in throws for y in f.descendants(t_))]
            if sv is not None and inside and any(sv in g.reach([v_]) for v_ in inside[:3]) and not any(v_ in g.reach([sv]) for v_ in inside[:3]):
                return True
    return False


def _index_from_search(f, i):
    """the position is a local that holds the result of a call (a search: xxxIdx(name), std::distance(begin, find_if(...)), a helper) -
    not a loop counter, not a parameter, not a constant"""
    from paths import local_init
    m = f.nodes[f.strip(i, 'all')]
    if m['k'] in ('CallExpr', 'CXXMemberCallExpr'):
        return True
    if m['k'] != 'DeclRefExpr' or m['decl'].get('dk') != 'local':
        return False
    srcs = []
    ini = local_init(f, m['decl']['id'])
    if ini is not None:
        srcs.append(ini)
    for n in f.all_nodes({'BinaryOperator'}):
        if n['op'] == '=' and f.nodes[f.strip(n['ch'][0], 'all')].get('decl', {}).get('id') == m['decl']['id']:
            srcs.append(n['ch'][1])
    for n in f.all_nodes({'UnaryOperator', 'CompoundAssignOperator'}):
        if n['ch'] and f.nodes[f.strip(n['ch'][0], 'all')].get('decl', {}).get('id') == m['decl']['id']:
            return False      # a counter
    return bool(srcs) and all(f.nodes[f.strip(x, 'all')]['k'] in ('CallExpr', 'CXXMemberCallExpr') for x in srcs)


def run(prog, tier):
    res = Result('C10', tier,
                 'Nothing-after path rule on the event-level CFG of every public mutator of c3d, the typed Parameter::set overloads, '
                 'Group::parameter(const Parameter&) and Parameters::group(const Group&): after the first effect (A3) on state rooted at `this` no explicit throw '
                 'is reachable (R1) and no call with a non-empty may-throw summary (A4) is reachable (R2) unless discharged: index validated by the same '
                 'container\'s name search or loop bound, element counts validated for every frame by a preceding forall-guard loop, callee guard already '
                 'tested by a dominating caller guard, listed infeasible case, or listed known finding (the updaters, K4).',
                 assumptions=['allocation failure is outside the property', 'exceptions are only raised by the explicit throws and the std members of the closed table'],
                 not_decided=['observational equality of the object before/after as a run-time snapshot',
                              'exceptions thrown by the updaters after the store (known finding K4: needs a transactional update)'])
    E = FX.get(prog)
    M = MT.get(prog)
    inv = load_invariants().get('C10_infeasible_throws', [])
    fs = targets(prog)
    res.minimum('functions examined', len(fs), 12)
    nchecked = 0
    for f in fs:
        g = f.events()
        R = Renderer(f)
        evs = [e for e in E.events_of(f, 'this') if e[3] != 'io']
        ev_vertices = {}
        for e in evs:
            v = g.vertex_of.get(e[0])
            if v is not None:
                ev_vertices.setdefault(v, []).append(e)
        inst = '%s::%s(%s)' % (f.qname.split('::')[-2], f.name, ', '.join(p['type'].replace('const ', '').replace('std::', '').replace('ezc3d::', '').replace(' &', '').replace('basic_string<char>', 'string').split('::')[-1] for p in f.params))
        if not ev_vertices:
            res.ok('validate-then-mutate', inst, f.loc(), 'no effect on the object', function=f.sig, expr='none', nontrivial=False)
            continue
        after = g.reach(list(ev_vertices.keys()))
        first_desc = sorted({FX.fmt(e) for es in ev_vertices.values() for e in es})[:3]
        problems = 0
        # R1: explicit throws after an effect
        for n in f.all_nodes({'CXXThrowExpr'}):
            v = g.vertex_of.get(n['id'])
            if v in after:
                # a throw inside a handler that only translates an exception raised *before* any effect
                src = [x for x in ev_vertices if v in g.reach([x])]
                if not src:
                    continue
                p = g.path(src[0], v)
                res.viol('validate-then-mutate', inst + ': throw after mutation', f.loc(n['id']),
                         'throw of %s is reachable after the object was already modified (%s at %s)' % (n.get('throw_t'), FX.fmt(ev_vertices[src[0]][0]), f.loc(g.node_of(src[0]))),
                         function=f.sig, expr='throw:%s' % n.get('throw_t'), facts={'path': g.describe_path(p) if p else None})
                problems += 1
        # R2: may-throw calls after an effect
        for n in f.calls():
            v = g.vertex_of.get(n['id'])
            if v is None or v not in after:
                continue
            raised = M.escapes_from(f, n['id'], M.raised_at(f, n))
            raised.discard('<rethrow>')
            if not raised:
                continue
            nchecked += 1
            cq = n['callee']['qname']
            # nested calls: the innermost raising call is reported; skip a call whose raise comes only from its arguments
            key = '%s->%s' % (cq.split('::')[-1], ','.join(sorted(raised)))
            left = set()
            for cls in raised:
                if guard_subsumed(prog, f, n, cls):
                    continue
                left.add(cls)
            if not left:
                res.ok('validate-then-mutate', inst + ': ' + key, f.loc(n['id']), 'callee guard already tested by a dominating guard of the caller', function=f.sig, expr=key)
                continue
            ent = [i for i in inv if i['function'] == f.qname and i['callee'] == cq and set(i['classes']) >= left]
            if not ent:
                # a by-name accessor that is `positional(indexByName(name))` over the listed look-up, called with the same name: the same case
                cf_ = prog.funcs.get(n['callee'].get('usr'))
                for i in inv:
                    if i['function'] != f.qname or not set(i['classes']) >= left or cf_ is None or cf_.body is None or len(cf_.params) != 1:
                        continue
                    Rc = Renderer(cf_)
                    inner = [c_ for c_ in cf_.calls() if c_['callee']['qname'] == i['callee'] and [Rc.render(a_) for a_ in cf_.call_args(c_)] == ['arg0']]
                    others = [t_ for t_ in cf_.all_nodes({'CXXThrowExpr'}) if t_.get('throw_t') in left]
                    listed_names = {R.render(a_) for c_ in f.calls() if c_['callee']['qname'] == i['callee'] for a_ in f.call_args(c_)[:1]}
                    if inner and not others and [R.render(a_) for a_ in f.call_args(n)][:1] and R.render(f.call_args(n)[0]) in listed_names:
                        ent = [i]
            if ent and ent[0].get('check') == 'group-name-stored-as-given' and not group_name_stored_as_given(prog):
                res.viol('validate-then-mutate', inst + ': ' + key, f.loc(n['id']),
                         'call of %s may throw %s after the group was created: the look-up uses the caller\'s name but Group no longer stores the name as given (it is transformed on the way in), '
                         'so a name that the transformation changes is not found again' % (cq, sorted(left)), function=f.sig, expr=key)
                problems += 1
                continue
            if ent:
                res.ok('validate-then-mutate', inst + ': ' + key, f.loc(n['id']), 'listed infeasible: ' + ent[0]['reason'], function=f.sig, expr=key, nontrivial=False)
                continue
            if left == {'std::out_of_range'} and re.sub(r'_nonConst$', '', n['callee']['name']) in ('frame', 'point', 'subframe', 'channel', 'group', 'parameter') and \
                    len(f.call_args(n)) == 1 and f.nodes[f.strip(f.call_args(n)[0], 'noop')].get('tc') in ('u', 's') and _index_from_search(f, f.call_args(n)[0]):
                # a bounds-checked positional access whose position the discharge lemmas could not validate: no position that is out of
                # range has been demonstrated either (A16) - the index may come from a search written in a way the lemma does not read
                res.undecided('validate-then-mutate', inst + ': ' + key, f.loc(n['id']), 'the positional access %s(%s) comes after the object was modified and its position is not validated by a form the rule reads; '
                              'no out-of-range position is demonstrated [shape not read by the rule]' % (cq.split('::')[-1], R.render(f.call_args(n)[0])[:60]), function=f.sig, expr=key)
                problems += 1
                continue
            if left == {'std::out_of_range'} and re.sub(r'_nonConst$', '', n['callee']['name']) in ('frame', 'point', 'subframe', 'channel', 'group', 'parameter') and _unread_validation_loop(f, n['id']):
                # the function validates in a loop the forall-guard lemma does not read (iterators, range-for, while): whether that loop covers this access is not decided
                res.undecided('validate-then-mutate', inst + ': ' + key, f.loc(n['id']), 'the positional access %s comes after the object was modified; a validation loop precedes it, written in a form the '
                              'forall-guard lemma does not read (iterator / range-for / while) [shape not read by the rule]' % cq.split('::')[-1], function=f.sig, expr=key)
                problems += 1
                continue
            if cq in UPDATERS:
                res.viol('validate-then-mutate', inst + ': updater may throw after the store', f.loc(n['id']),
                         '%s may throw %s after the object was modified (%s)' % (cq.split('::')[-1], sorted(left), first_desc), function=f.sig, expr='updater:' + cq.split('::')[-1])
            else:
                res.viol('validate-then-mutate', inst + ': ' + key, f.loc(n['id']),
                         'call of %s may throw %s after the object was already modified (%s): a refused call would leave a partial modification' % (cq, sorted(left), first_desc),
                         function=f.sig, expr=key)
            problems += 1
        if not problems:
            res.ok('validate-then-mutate', inst, f.loc(), 'no throw and no may-throw call after the first modification', function=f.sig, expr='all')
    res.info['may_throw_calls_after_effect'] = nchecked
    # the column adders: no frame receives the column before every frame has been accepted (also when the
    # frames are reached through copies that share their payload with the stored ones)
    import p_c06
    p_c06.column_rules(prog, res, rule='column-atomic')
    # the updaters run after the store: a positional look-up that their own guard does not cover throws on a
    # state the guard let through, i.e. after the object was modified
    import indexsites
    roots = [f for f in prog.repo_funcs() if f.qname in ('ezc3d::c3d::updateHeader', 'ezc3d::c3d::updateParameters')]
    # ... and the members of c3d / file-local helpers they are split into
    ups = [prog.funcs[u] for u in sorted(prog.reachable_from(roots)) if u in prog.funcs and not prog.funcs[u].implicit and
           (prog.funcs[u].cls == 'ezc3d::c3d' or prog.funcs[u].rec.get('internal'))]
    n = indexsites.const_accessor_rule(prog, res, ups, rule_name='updater-positions')
    # ... and an explicit refusal of their own after they have begun to rewrite the parameters / the header is a
    # partial update by construction (distinct from K4, which is about look-ups that may throw)
    for f in ups:
        g = f.events()
        evs = [e for e in E.events_of(f, 'this') if e[3] != 'io']
        vs = {g.vertex_of.get(e[0]): e for e in evs if g.vertex_of.get(e[0]) is not None}
        throws = list(f.all_nodes({'CXXThrowExpr'}))
        if not throws:
            res.ok('updater-refusal', f.name, f.loc(), 'no explicit throw in the updater', function=f.sig, expr='none', nontrivial=False)
            continue
        after = g.reach(list(vs.keys())) if vs else set()
        for t in throws:
            v = g.vertex_of.get(t['id'])
            src = [x for x in vs if v is not None and v in after and v in g.reach([x])]
            if src:
                res.viol('updater-refusal', f.name + ': throw after mutation', f.loc(t['id']),
                         'the updater throws %s after it has already rewritten part of the object (%s at %s): the caller\'s store and this partial update stay behind' %
                         (t.get('throw_t'), FX.fmt(vs[src[0]]), f.loc(g.node_of(src[0]))), function=f.sig, expr='throw:%s' % t.get('throw_t'), sure=True)
            else:
                res.ok('updater-refusal', f.name + ': throw before any mutation', f.loc(t['id']), 'the refusal precedes every effect of the updater', function=f.sig, expr='throw@%d' % t['id'])
    res.minimum('guarded constant positions in the updaters', n, 3)
    return res
