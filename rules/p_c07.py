"""C07 — frame-adding calls enforce their documented preconditions (partial claim).

For every documented refusal the guard prefix of the mutator is evaluated on every row of a finite
model of the quantities it compares (A7): rows in the must-refuse region must end in a throw of
the documented class before anything is modified, rows in the must-accept region must reach the
mutation.  The label and duplicate-name rules are loop-shaped and are checked structurally.  The
scripting binding must map every class the library throws to the documented exception."""
import itertools
import json
import os
import re
from facts import AnalysisBroken, VERIF
from result import Result
from paths import Renderer
from loops import normal_for, enclosing_fors, loops_around
import a7


def load_contract():
    with open(os.path.join(VERIF, 'spec', 'api_contract.json')) as fh:
        return json.load(fh)


def find_fn(prog, q, spec):
    if 'nparams' in spec:
        return prog.fn(q, nparams=spec['nparams'])
    c = [f for f in prog.fns(q) if f.params and f.params[0]['type'] == spec['ptype0']]
    if len(c) != 1:
        raise AnalysisBroken('anchor %s(%s) vanished' % (q, spec['ptype0']))
    return c[0]


def guard_table(prog, res, q, spec, classes):
    f = find_fn(prog, q, spec)
    names = list(spec['atoms'])
    doms = [spec['atoms'][n]['values'] for n in names]
    stop_kind = spec['accept_stop']
    first_loop = None
    first_try = None
    for n in f.nodes:
        if n['k'] in ('ForStmt', 'WhileStmt') and first_loop is None:
            first_loop = set(f.descendants(n['id']))
        if n['k'] == 'CXXTryStmt' and first_try is None:
            first_try = set(f.descendants(n['id']))

    def stop(n):
        if isinstance(stop_kind, list):
            for sk in stop_kind:
                if sk == 'first-try' and first_try is not None and n['id'] in first_try:
                    return True
                if sk == 'first-loop' and first_loop is not None and n['id'] in first_loop:
                    return True
                if n['k'] == 'CXXMemberCallExpr' and n['callee']['qname'] == sk:
                    return True
            return False
        if stop_kind == 'first-loop':
            return first_loop is not None and n['id'] in first_loop
        if stop_kind == 'first-try':
            return first_try is not None and n['id'] in first_try
        return n['k'] == 'CXXMemberCallExpr' and n['callee']['qname'] == stop_kind
    rows = 0
    bad = {}
    undecided = {}
    per_refusal = {r['name']: 0 for r in spec['refusals']}

    def extend(model):
        """the contract describes the first element of each argument list; a call "that satisfies the
        documented preconditions" has every further element shaped like the first"""
        for k, v in list(model.items()):
            if isinstance(k, str) and '[0]' in k:
                for j in (1, 2):
                    model.setdefault(k.replace('[0]', '[%d]' % j), v)
        # the points of a supplied frame carry pairwise different names (what they are is not part of these tables)
        npts = model.get('arg0._points._points.size')
        if isinstance(npts, int):
            for j in range(npts):
                model.setdefault('arg0._points._points[%d]._name' % j, 'n%d' % j)
                model.setdefault('arg0._points.point(%d)._name' % j, 'n%d' % j)
        return model
    # quantities the guards read that the documented contract does not name: state atoms are
    # treated as free variables over a small domain (the guard must give the documented answer
    # whatever they hold); anything else leaves the table undecided
    extra = {}
    for _ in range(4):
        found = False
        for vals in itertools.product(*doms):
            env = dict(zip(names, vals))
            model = {spec['atoms'][n]['path']: v for n, v in env.items()}
            model.update({k: v[0] for k, v in extra.items()})
            events, end, undec = a7.walk(f, extend(model), stop=stop)
            for cond, unk in undec:
                for atom, tc in unk.items():
                    if atom not in extra and tc == 'b' and re.match(r'^\(anonymous namespace\)::\w+\(', atom):
                        # a file-local predicate the model cannot evaluate: free boolean
                        extra[atom] = [False, True]
                        found = True
                    if atom not in extra and re.match(r'^(this|arg\d+)[.\[]', atom) and tc in ('u', 's', 'f', 'b') and 'local:' not in atom:
                        extra[atom] = [0, 1, 2] if tc in ('u', 's') else ([0.0, 0.5] if tc == 'f' else [False, True])
                        found = True
            if found:
                break
        if not found:
            break
    enames = sorted(extra)
    for vals in itertools.product(*(doms + [extra[e] for e in enames])):
        env = dict(zip(names, vals[:len(names)]))
        model = {spec['atoms'][n]['path']: v for n, v in env.items()}
        xenv = dict(zip(enames, vals[len(names):]))
        model.update(xenv)
        reasons = [r for r in spec['refusals'] if eval(r['when'], {}, env)]
        free = eval(spec.get('free', 'False'), {}, env)
        events, end, undec = a7.walk(f, extend(model), stop=stop)
        rows += 1
        if end.startswith('undecided'):
            nid = int(end.split('@')[1])
            undecided[Renderer(f).render(nid)] = f.loc(nid)
            continue
        if end == 'loop':
            # the walk met a loop before the refusal / the store it was looking for: a construct this table does not follow
            undecided['a loop in the guard prefix (before the first documented stop)'] = f.loc()
            continue
        if xenv:
            env = dict(env)
            env.update({'[undocumented] ' + k: v for k, v in xenv.items()})
        if reasons:
            for r in reasons:
                per_refusal[r['name']] += 1
            want = {classes[r['class']] for r in reasons}
            if not end.startswith('throw:') or end.split(':', 1)[1].rsplit('@', 1)[0] not in want:
                key = reasons[0]['name']
                got = end.split('@')[0]
                bad.setdefault(key, []).append((env, got, sorted(want)))
        elif not free:
            if not end.startswith('stop@'):
                bad.setdefault('accepts every matching call', []).append((env, end.split('@')[0], ['accepted']))
    inst = q.split('::')[-1] + ('(frames)' if 'ptype0' in spec else '')
    for u, where in undecided.items():
        res.undecided('guard-table', inst, where, 'guard uses a quantity the contract model does not know: %s' % u[:160], function=f.sig, expr='atom:' + u[:80])
    for r in spec['refusals']:
        if per_refusal[r['name']] == 0:
            raise AnalysisBroken('contract row %s is never exercised by the model' % r['name'])
        if r['name'] in bad:
            env, got, want = bad[r['name']][0]
            res.viol('guard-table', '%s: %s' % (inst, r['name']), f.loc(),
                     'documented refusal (%s) is not enforced: with %s the call ends in %s instead of %s (%d of %d must-refuse rows differ)' %
                     (r['when'], env, got, want, len(bad[r['name']]), per_refusal[r['name']]), function=f.sig, expr=r['name'], facts={'cite': r['cite']})
        else:
            res.ok('guard-table', '%s: %s' % (inst, r['name']), f.loc(), 'throws %s on all %d must-refuse rows before anything is modified' % (classes[r['class']], per_refusal[r['name']]),
                   function=f.sig, expr=r['name'])
    key = 'accepts every matching call'
    if key in bad:
        env, got, want = bad[key][0]
        res.viol('guard-table', '%s: %s' % (inst, key), f.loc(), 'a call that satisfies every documented precondition is refused: with %s the call ends in %s (%d rows)' % (env, got, len(bad[key])),
                 function=f.sig, expr=key)
    else:
        res.ok('guard-table', '%s: %s' % (inst, key), f.loc(), 'all must-accept rows reach the mutation (%d rows enumerated)' % rows, function=f.sig, expr=key)
    return f, rows


def _internal_helpers(prog, f, R):
    """[(helper Func, substitution of its this/argN by the caller's renderings, call node)] for the
    file-local helpers f calls"""
    out = []
    for c in f.calls():
        cf = prog.funcs.get(c['callee'].get('usr')) if c['callee'].get('inrepo') else None
        if cf is None or cf.body is None or not (cf.rec.get('internal') or '(anonymous namespace)' in cf.qname):
            continue
        sub = {'arg%d' % k: re.sub(r'^\*\((.*)\)$', r'\1', R.render(a)) for k, a in enumerate(f.call_args(c))}
        if f.call_obj(c) is not None:
            sub['this'] = re.sub(r'^\*\((.*)\)$', r'\1', R.render(f.call_obj(c)))
        out.append((cf, sub, c))
    return out


def label_rule(prog, res):
    from codec import substitute
    f0 = prog.fn('ezc3d::c3d::frame', nparams=2)
    R0 = Renderer(f0)
    g0 = f0.events()
    mut = [n for n in f0.calls() if n['callee']['qname'] == 'ezc3d::DataNS::Data::frame']
    okl = False
    why = 'no loop over POINT:LABELS that looks every label up in the frame'
    partial = False     # the look-up was recognised and is demonstrably incomplete / wrongly classified
    helpers = _internal_helpers(prog, f0, R0)
    for f, sub, callnode in [(f0, {}, None)] + helpers:
        R = Renderer(f)
        rr = (lambda i, R=R, sub=sub: re.sub(r'^\*\((.*)\)$', r'\1', substitute(R.render(i), sub)) if sub else R.render(i))
        for t in f.all_nodes({'CXXTryStmt'}):
            calls = [f.nodes[x] for x in f.descendants(t['body']) if f.nodes[x]['k'] == 'CXXMemberCallExpr' and f.nodes[x]['callee']['name'] == 'pointIdx']
            if not calls:
                continue
            c = calls[0]
            la = loops_around(f, t['id'], R)
            lf = la[0] if la else None
            if not lf or lf['name'] is None:
                why = 'label look-up is not inside a counted loop over the labels'
                continue
            lab = 'this._parameters.group("POINT").parameter("LABELS").valuesAsString()'
            bound = substitute(lf['bound'], sub) if sub else lf['bound']
            if bound != lab + '.size':
                why = 'label loop runs to %s, not POINT:LABELS.size' % bound
                partial = True
                continue
            if rr(f.call_obj(c)) != 'arg0._points' or rr(c['args'][0]) != '%s[local:%s]' % (lab, lf['name']):
                why = 'look-up is %s.pointIdx(%s)' % (rr(f.call_obj(c)), rr(c['args'][0]))
                partial = True
                continue
            hs = [f.nodes[h] for h in t['handlers']]
            good = False
            hands_back = False
            for h in hs:
                if h.get('catch_t') in ('std::invalid_argument', 'std::logic_error', 'std::exception') or h.get('catch_all'):
                    ths = [f.nodes[x] for x in f.descendants(h['body']) if f.nodes[x]['k'] == 'CXXThrowExpr']
                    hb = f.nodes[h['body']]
                    last = f.nodes[f.strip(hb['ch'][-1], 'all')] if hb['ch'] else None
                    if ths and all(x.get('throw_t') == 'std::invalid_argument' or x.get('rethrow') for x in ths) and last is not None and last['k'] == 'CXXThrowExpr':
                        good = True
                    elif not ths and f is not f0 and any(f.nodes[x]['k'] == 'ReturnStmt' and f.nodes[x].get('ch') for x in f.descendants(h['body'])):
                        hands_back = True     # a checker that reports the reason to its caller: what the caller does with it is decided on the models below
                    break
            if hands_back:
                why = 'the look-up failure is handed back to the caller as a value'
                continue
            if not good:
                why = 'a missing label does not end in std::invalid_argument'
                partial = True
                continue
            # the look-up (or the call of the helper that holds it) comes before the store, never after
            cv = g0.vertex_of.get(c['id']) if f is f0 else g0.vertex_of.get(callnode['id'])
            if mut and cv is not None and all(g0.vertex_of.get(m['id']) in g0.reach([cv]) for m in mut) and \
                    not any(g0.vertex_of.get(m['id']) is not None and cv in g0.reach([g0.vertex_of[m['id']]]) for m in mut):
                okl = True
    inst = 'frame: every POINT:LABELS entry must be present in the frame'
    if not okl and not partial:
        # not the usual shape: decide on finite models (0..2 declared labels x frames of 0..3 points named from
        # {a, b, c}, every other precondition satisfied): refused with std::invalid_argument iff a label is missing
        v, info = model_label_rule(prog, f0)
        if v == 'ok':
            res.ok('label-rule', inst, f0.loc(), 'not the usual loop; walked on %d finite models (labels x point names): refused with std::invalid_argument exactly when a declared label is missing from the frame' % info,
                   function=f0.sig, expr='labels')
            return
        if v == 'violation':
            res.viol('label-rule', inst, f0.loc(), info, function=f0.sig, expr='labels')
            return
        why = why + '; ' + str(info)
    if okl:
        res.ok('label-rule', inst, f0.loc(), 'loop over all labels, look-up failure -> std::invalid_argument, before the store', function=f0.sig, expr='labels')
    elif partial or not (mentions_with_refusal(f0, R0, 'parameter("LABELS")') or any(mentions_with_refusal(h, Renderer(h), 'parameter("LABELS")') for h, _, _ in helpers)):
        res.viol('label-rule', inst, f0.loc(), why + ('' if partial else ': nothing in the function tests the frame against POINT:LABELS and refuses'), function=f0.sig, expr='labels')
    else:
        res.undecided('label-rule', inst, f0.loc(), 'the labels are tested in a form the rule does not read (%s)' % why, function=f0.sig, expr='labels')


def model_label_rule(prog, f0):
    contract = load_contract()
    spec = contract['functions']['ezc3d::c3d::frame']
    LAB = 'this._parameters.group("POINT").parameter("LABELS").valuesAsString()'
    PTS = 'arg0._points._points'

    def stop(n):
        return n['k'] == 'CXXMemberCallExpr' and n['callee']['qname'] == spec['accept_stop']
    n = 0
    for L in ([], ['a'], ['a', 'b'], ['b', 'a']):
        for k in range(0, 4):
            for N in itertools.product('abc', repeat=k):
                env = {'used': len(N), 'fp': len(N), 'prate': 100.0, 'nsub': 0, 'arate': 0.5, 'aused': 0, 'nch': 0, 'abf': 0, 'nlabels': len(L)}
                model = {spec['atoms'][a]['path']: v for a, v in env.items() if a in spec['atoms']}
                model[LAB + '.size'] = len(L)
                for i, x in enumerate(L):
                    model['%s[%d]' % (LAB, i)] = x
                model[PTS + '.size'] = len(N)
                for i, x in enumerate(N):
                    model['%s[%d]._name' % (PTS, i)] = x
                    model['arg0._points.point(%d)._name' % i] = x
                model['#alias'] = {'point': '_points'}
                try:
                    wst = {'library_lookups': True}
                    events, end, undec = a7.walk(f0, model, stop=stop, follow_loops=True, max_steps=4000, state=wst)
                except a7.OutOfRange as e:
                    return 'undecided', 'the walk indexes outside a modelled container (%s)' % (e,)
                n += 1
                if end.startswith('undecided') or end == 'loop':
                    what = ''
                    if undec:
                        what = ': ' + ', '.join(sorted(str(a_)[:100] for _, u_ in undec for a_ in u_))[:300]
                    return 'undecided', 'the label test cannot be evaluated on finite models%s' % what
                missing = [x for x in L if x not in N]
                got = end.split('@')[0]
                if wst.get('lookup_unread') and ((missing and got != 'throw:std::invalid_argument') or (not missing and not end.startswith('stop@'))):
                    return 'undecided', 'the walk passes %s, whose outcome cannot be evaluated on the model' % wst['lookup_unread']
                if missing and got != 'throw:std::invalid_argument':
                    return 'violation', 'with POINT:LABELS = %s and a frame whose points are named %s (label %s missing) the call ends in %s; documented: refused with std::invalid_argument' % (L, list(N), missing[0], got)
                if not missing and not end.startswith('stop@'):
                    return 'violation', 'with POINT:LABELS = %s and a frame whose points are named %s (every label present) the call ends in %s; documented: accepted' % (L, list(N), got)
    return 'ok', n


def mentions_with_refusal(f, R, text):
    """some throw in f is control-dependent on (or handles a failure of) an expression that mentions `text`"""
    texts = [text]
    for n in f.all_nodes({'DeclStmt'}):
        for d in n['decls']:
            if 'init' in d and text in R.render(d['init']):
                texts.append('local:' + d['name'])
    return any(_mentions_with_refusal(f, R, t) for t in texts)


def _mentions_with_refusal(f, R, text):
    # in a checker that reports a reason instead of throwing, handing back the reason is the refusal
    try:
        import validators
        refuse_k = ('CXXThrowExpr', 'ReturnStmt') if validators.reason_summary(f.prog, f.usr) else ('CXXThrowExpr',)
    except Exception:
        refuse_k = ('CXXThrowExpr',)
    for n in f.all_nodes({'IfStmt'}):
        if text in R.render(n['cond']) and any(f.nodes[x]['k'] in refuse_k for x in f.descendants(n['then']) + (f.descendants(n['else']) if 'else' in n else [])):
            return True
    for t in f.all_nodes({'CXXTryStmt'}):
        body = ' '.join(R.render(x) for x in f.descendants(t['body']) if f.nodes[x]['k'] in ('CXXMemberCallExpr', 'CallExpr', 'CXXOperatorCallExpr'))
        if text in body and any(f.nodes[x]['k'] == 'CXXThrowExpr' for h in t['handlers'] for x in f.descendants(h)):
            return True
    # a loop over the labels whose body can throw (by a call or explicitly)
    for n in f.all_nodes({'ForStmt', 'CXXForRangeStmt', 'WhileStmt'}):
        hdr = ' '.join(R.render(n[k]) for k in ('cond', 'range') if k in n)
        if text in hdr:
            return True
    return False


def duplicate_rule(prog, res, q, ptype0, group, name_re):
    f = [x for x in prog.fns(q) if x.params and x.params[0]['type'] == ptype0][0]
    R = Renderer(f)
    lab = 'this._parameters.group("%s").parameter("LABELS").valuesAsString()' % group
    inst = '%s(frames): a name that already exists is refused' % f.name
    ok = False
    partial = False
    why = 'no comparison of each new name with every existing label that throws std::invalid_argument'
    for n in f.all_nodes({'IfStmt'}):
        c = R.render(n['cond'])
        ths = [f.nodes[x] for x in f.descendants(n['then']) if f.nodes[x]['k'] == 'CXXThrowExpr']
        if not ths or any(t.get('throw_t') != 'std::invalid_argument' for t in ths):
            continue
        m = re.match(r'^!\(\(bool\)(.*)\.compare\((.*)\)\)$', c) or re.match(r'^\((.*) == (.*)\)$', c) or re.match(r'^std::operator==\((.*),(.*)\)$', c)
        if not m:
            # a file-local membership predicate  h(L, name) { return std::find(L.begin(), L.end(), name) != L.end(); }
            cn = f.nodes[f.strip(n['cond'], 'all')]
            if cn['k'] == 'CallExpr' and cn.get('callee', {}).get('inrepo'):
                hf = prog.funcs.get(cn['callee']['usr'])
                if hf is not None and hf.body is not None and (hf.rec.get('internal') or '(anonymous namespace)' in hf.qname):
                    Rh = Renderer(hf)
                    rets = [Rh.render(r_['ch'][0]) for r_ in hf.all_nodes({'ReturnStmt'}) if r_['ch']]
                    hm = re.match(r'^(?:__gnu_cxx::|std::)?operator!=\(std::find\(arg(\d)\.begin\(\),arg(\d)\.end\(\),arg(\d)\),arg(\d)\.end\(\)\)$', rets[0]) if len(rets) == 1 else None
                    if hm and hm.group(1) == hm.group(2) == hm.group(4) and len(f.call_args(cn)) > max(int(hm.group(1)), int(hm.group(3))):
                        La = R.render(f.call_args(cn)[int(hm.group(1))])
                        Na = R.render(f.call_args(cn)[int(hm.group(3))])
                        c = 'operator!=(std::find(%s.begin(),%s.end(),%s),%s.end())' % (La, La, Na, La)
            # std::find(L.begin(), L.end(), name) != L.end()   with L the label list (or an unmodified copy of it)
            fm = re.match(r'^(?:__gnu_cxx::|std::)?operator!=\(std::find\((.*)\.begin\(\),(.*)\.end\(\),(.*)\),(.*)\.end\(\)\)$', c)
            if fm and fm.group(1) == fm.group(2) == fm.group(4):
                L = fm.group(1)
                lm = re.match(r'^local:(\w+)$', L)
                if lm:
                    for dn in f.all_nodes({'DeclStmt'}):
                        for d in dn['decls']:
                            if d['name'] == lm.group(1) and 'init' in d and R.render(d['init']) == lab and R._base_local is not None:
                                # the copy must not be modified before the test
                                muts = [x for x in f.calls() if x.get('obj') is not None and not x['callee'].get('const') and x['callee']['name'] not in ('begin', 'end', 'cbegin', 'cend')
                                        and R._base_local(x['obj']) == d['id']]
                                if not muts:
                                    L = lab
                if L == lab and re.match(name_re, fm.group(3)):
                    nv = re.match(name_re, fm.group(3)).group(1)
                    lf = {x['name']: x['bound'] for x in loops_around(f, n['id'], R) if x['name'] is not None}
                    if nv in lf:
                        ok = True
                    else:
                        why = 'new names are not all compared'
                        partial = True
            continue
        a, b = m.group(1), m.group(2)
        sides = sorted([a, b])
        lf = {}
        for x in loops_around(f, n['id'], R):
            if x['name'] is not None:
                lf[x['name']] = x['bound']
        mm = [re.match(name_re, s) for s in (a, b)]
        ml = [re.match(r'^%s\[local:(\w+)\]$' % re.escape(lab), s) for s in (a, b)]
        nv = next((x.group(1) for x in mm if x), None)
        lv = next((x.group(1) for x in ml if x), None)
        if nv is None or lv is None:
            why = 'the comparison is between %s and %s' % (a, b)
            continue
        if lf.get(lv) != lab + '.size':
            why = 'existing labels are not all compared (loop bound %s)' % lf.get(lv)
            partial = True
            continue
        if nv not in lf:
            why = 'new names are not all compared'
            partial = True
            continue
        ok = True
    # a std algorithm over the label list and a list of the new names decides the refusal
    if not ok:
        for n in f.all_nodes({'IfStmt'}):
            ths = [f.nodes[x] for x in f.descendants(n['then']) if f.nodes[x]['k'] == 'CXXThrowExpr']
            if not ths:
                continue
            for x in f.descendants(n['cond']):
                c_ = f.nodes[x]
                q_ = c_.get('callee', {}).get('qname') if c_['k'] == 'CallExpr' else None
                if q_ in ('std::search', 'std::includes', 'std::equal', 'std::mismatch', 'std::find_end', 'std::search_n', 'std::lexicographical_compare'):
                    rargs = [R.render(a) for a in f.call_args(c_)]
                    if any('LABELS' in a or any(a.startswith('local:' + d['name']) for dn in f.all_nodes({'DeclStmt'}) for d in dn['decls'] if 'init' in d and lab in R.render(d['init'])) for a in rargs):
                        partial = True
                        why = '%s over the label list refuses only when the new names occur there as one run in the same order (or all of them): a single name that already exists among others is accepted' % q_
                elif q_ == 'std::find_first_of':
                    rargs = [R.render(a) for a in f.call_args(c_)]
                    if len(rargs) == 4 and rargs[0].endswith('.begin()') and rargs[1].endswith('.end()') and rargs[2].endswith('.begin()') and rargs[3].endswith('.end()'):
                        why = 'std::find_first_of over two lists: whether the second list holds every new name is not read by the rule'
    if ok:
        res.ok('duplicate-rule', inst, f.loc(), 'every new name x every %s:LABELS entry compared for equality -> std::invalid_argument' % group, function=f.sig, expr='duplicate')
    elif partial or not (mentions_with_refusal(f, R, 'parameter("LABELS")') or any(mentions_with_refusal(h, Renderer(h), 'parameter("LABELS")') for h, _, _ in _internal_helpers(prog, f, R))):
        res.viol('duplicate-rule', inst, f.loc(), why + ('' if partial else ': nothing in the function tests the new names against %s:LABELS and refuses' % group), function=f.sig, expr='duplicate')
    else:
        res.undecided('duplicate-rule', inst, f.loc(), 'the new names are tested against the labels in a form the rule does not read (%s)' % why, function=f.sig, expr='duplicate')


def lock_rule(prog, res):
    from codec import substitute
    for q in ('ezc3d::c3d::lockGroup', 'ezc3d::c3d::unlockGroup'):
        f = prog.fn(q, nparams=1)
        R = Renderer(f)
        fam = [(f, {'arg0': 'arg0'}, None)] + _internal_helpers(prog, f, R)
        lookups, trys, toggles, other = [], [], [], []
        for g, sub, cn in fam:
            Rg = Renderer(g)
            trys += list(g.all_nodes({'CXXTryStmt'}))
            for n in g.calls():
                if not n['callee'].get('inrepo'):
                    continue
                nm = n['callee']['name']
                if nm == 'group_nonConst' and n['callee']['ptypes'] and 'basic_string' in n['callee']['ptypes'][0]:
                    a = Rg.render(n['args'][0])
                    lookups.append(substitute(a, sub) if sub else a)
                elif nm in ('lock', 'unlock'):
                    toggles.append(nm)
                elif any(n['callee'].get('usr') == h.usr for h, _, _ in fam):
                    pass
                else:
                    other.append(nm)
        want = 'lock' if 'unlock' not in q else 'unlock'
        inst = '%s: unknown group' % f.name
        if len(lookups) == 1 and lookups[0] == 'arg0' and not trys and want in toggles and not other:
            res.ok('guard-table', inst, f.loc(), 'group looked up by name (std::invalid_argument from the name search, C11), nothing swallowed', function=f.sig, expr='unknown-group')
        elif trys and lookups:
            res.viol('guard-table', inst, f.loc(), 'the by-name look-up of the group sits in a function with a handler: an unknown group may not surface as std::invalid_argument', function=f.sig, expr='unknown-group')
        elif not lookups and not other:
            res.viol('guard-table', inst, f.loc(), 'the group is not looked up by the caller\'s name through the checked accessor (calls: %s)' % toggles, function=f.sig, expr='unknown-group')
        elif lookups and lookups[0] != 'arg0' and len(lookups) == 1 and not other:
            res.viol('guard-table', inst, f.loc(), 'the group is looked up as %s, not by the caller\'s name' % lookups[0], function=f.sig, expr='unknown-group')
        else:
            res.undecided('guard-table', inst, f.loc(), 'the group is reached through %s, a form the rule does not read [shape not read by the rule]' % sorted(set(other) or set(lookups)), function=f.sig, expr='unknown-group')


def binding_rule(prog, res, contract):
    path = os.path.join(prog.repo, 'binding', 'ezc3d.i')
    try:
        txt = open(path).read()
    except OSError:
        raise AnalysisBroken('binding/ezc3d.i vanished')
    m = re.search(r'%exception\s*\{(.*?)\n\}', txt, re.S)
    if not m:
        raise AnalysisBroken('no %exception block in binding/ezc3d.i')
    blk = m.group(1)
    catches = re.findall(r'catch\s*\(\s*(?:const\s+)?([\w:]+|\.\.\.)\s*&?\s*\w*\s*\)\s*\{\s*SWIG_exception\(\s*(\w+)', blk)
    if len(catches) < 3:
        raise AnalysisBroken('cannot parse the catch list of the %exception block')
    order = [(c if c.startswith('std::') or c == '...' else 'std::' + c, sw) for c, sw in catches]
    # classes thrown anywhere in the library, with their bases
    thrown = {}
    for f in prog.repo_funcs():
        for n in f.all_nodes({'CXXThrowExpr'}):
            if n.get('throw_t'):
                thrown[n['throw_t']] = n.get('throw_bases', [])
    want = contract['binding_map']
    for cls, bases in sorted(thrown.items()):
        got = None
        for c, sw in order:
            if c == '...' or c == cls or c in bases:
                got = (c, sw)
                break
        exp = want.get(cls)
        if exp is None:
            res.undecided('binding-map', cls, 'binding/ezc3d.i', 'class thrown by the library has no documented mapping', function='', expr=cls)
        elif got is None or got[1] != exp:
            res.viol('binding-map', cls, 'binding/ezc3d.i', 'first matching catch clause is `%s` -> %s; documented %s' % (got[0] if got else None, got[1] if got else None, exp), function='', expr=cls)
        else:
            res.ok('binding-map', cls, 'binding/ezc3d.i', 'first match `%s` -> %s' % got, function='', expr=cls)
    res.minimum('exception classes thrown by the library', len(thrown), 5)


def name_adder_dispatch_rule(prog, res):
    """c3d::point(name) / c3d::analog(name): a pending name is handed to updateParameters only on an empty data
    set, because updateParameters refuses pending names when frames exist; a dispatch test that lets a
    non-empty data set through turns a valid column call into a refusal (caller's belief vs callee's check)"""
    import indexsites as IS
    up = [f for f in prog.fns('ezc3d::c3d::updateParameters') if len(f.rec.get('params', [])) == 2]
    if not up:
        raise AnalysisBroken('c3d::updateParameters(newPoints, newAnalogs) vanished')
    up = up[0]
    RU = Renderer(up)
    FR = 'this._data._frames.size'
    refuses = set()
    for n in up.all_nodes({'IfStmt'}):
        c = RU.render(n['cond'])
        th = n.get('then')
        if th is None or not any(up.nodes[x]['k'] == 'CXXThrowExpr' for x in [th] + list(up.descendants(th))):
            continue
        if FR in c:
            for k in (0, 1):
                if 'arg%d.size' % k in c or 'arg%d.empty' % k in c:
                    refuses.add(k)
    n_sites = 0
    for q in ('ezc3d::c3d::point', 'ezc3d::c3d::analog'):
        for f in prog.fns(q):
            ps = f.rec.get('params', [])
            if len(ps) != 1 or 'basic_string' not in ps[0]['type'] or 'vector' in ps[0]['type']:
                continue
            R = Renderer(f)
            for c in f.calls():
                if c['callee'].get('usr') != up.usr and not (c['callee']['name'] == 'updateParameters' and c['callee'].get('class') == 'ezc3d::c3d'):
                    continue
                args = [R.render(a) for a in f.call_args(c)]
                pend = [k for k, a in enumerate(args) if k in refuses and a != 'default' and not a.endswith('{}')]
                if not pend:
                    continue
                n_sites += 1
                inst = 'c3d::%s(name) -> updateParameters(pending name)' % f.name
                facts = [(op, r) for l, op, r, _ in IS.facts_at(f, R, c['id']) if l == FR]
                if any((op, r) in (('==', '0'), ('<=', '0'), ('<', '1')) for op, r in facts):
                    res.ok('name-dispatch', inst, f.loc(c['id']), 'reached only when no frame is stored; updateParameters refuses pending names otherwise', function=f.sig, expr='dispatch:' + f.name)
                elif facts:
                    res.viol('name-dispatch', inst, f.loc(c['id']), 'the pending name reaches updateParameters whenever frames.size %s: updateParameters refuses pending names on every non-empty data set, '
                             'so a valid column call on such a data set is refused' % ' and '.join('%s %s' % x for x in facts), function=f.sig, expr='dispatch:' + f.name)
                else:
                    res.undecided('name-dispatch', inst, f.loc(c['id']), 'no test of the frame count dominates the call while updateParameters refuses pending names on a non-empty data set [shape not read by the rule]',
                                  function=f.sig, expr='dispatch:' + f.name)
    res.info['name_dispatch_sites'] = n_sites
    if refuses and n_sites == 0:
        res.undecided('name-dispatch', 'c3d::point(name)/analog(name)', up.loc(), 'updateParameters refuses pending names on a non-empty data set, but the name adders do not hand their pending name to it directly [shape not read by the rule]', function=up.sig, expr='dispatch')


def run(prog, tier):
    contract = load_contract()
    res = Result('C07', tier,
                 'For c3d::frame, point(frames), analog(frames) and parameter the guard prefix is walked over the CFG on every row of a finite model of '
                 'the compared quantities (unsigned / float->int truncation / short-circuit semantics): must-refuse rows end in the documented exception '
                 'class before any store, must-accept rows reach the store (rows where the documentation is silent are free). Label and duplicate-name '
                 'rules (loop-shaped) are matched structurally. lock/unlock look the group up through the checked by-name accessor. The SWIG %exception '
                 'block maps every class the library throws to the documented scripting exception (first-match order respected).',
                 assumptions=['spec/api_contract.json transcribes the documented contract (include/ezc3d.h, property text)',
                              'rows with several simultaneous reasons may end in any of their documented classes'],
                 not_decided=['acceptance of every valid frame from every state beyond the guard tables (exceptions escaping from the updater afterwards are C10)'])
    total = 0
    for q, spec in contract['functions'].items():
        f, rows = guard_table(prog, res, q, spec, contract['classes'])
        total += rows
    res.info['model_rows_walked'] = total
    res.minimum('guard-table rows walked', total, 2000)
    label_rule(prog, res)
    duplicate_rule(prog, res, 'ezc3d::c3d::point', 'const std::vector<ezc3d::DataNS::Frame> &', 'POINT', r'^arg0\[0\]\._points\.point\(local:(\w+)\)\._name$')
    duplicate_rule(prog, res, 'ezc3d::c3d::analog', 'const std::vector<ezc3d::DataNS::Frame> &', 'ANALOG', r'^arg0\[0\]\._analogs\.subframe\(0\)\.channel\(local:(\w+)\)\._name$')
    lock_rule(prog, res)
    binding_rule(prog, res, contract)
    name_adder_dispatch_rule(prog, res)
    # "a frame that matches the declared names is accepted": names are compared as stored - every way of naming a point /
    # channel trims alike (C11 trimmed-name), and the look-up the label guard relies on is a first-exact-match search
    import p_c11
    t11 = p_c11.run(prog, 'quick')
    for o in t11.obs:
        if o['rule'] == 'trimmed-name' or (o['rule'] == 'index-by-name' and ('pointIdx' in o.get('function', '') or 'channelIdx' in o.get('function', ''))) or \
                (o['rule'] == 'name-index' and ('Points::' in o.get('function', '') or 'SubFrame::' in o.get('function', ''))):
            res.obs.append(dict(o, rule='name-match/' + o['rule']))
    # POINT:USED / ANALOG:USED, against which frames are judged, stay the counts of every frame only while frames share nothing
    import p_c08
    p_c08.ownership_rules(prog, res, rule_prefix='declared-shape/ownership')
    # a positional look-up inside the guard prefix that the guards before it do not cover throws std::out_of_range
    # instead of the documented class (or refuses a valid call)
    import indexsites
    muts = [f for f in prog.repo_funcs() if f.cls == 'ezc3d::c3d' and f.name in ('frame', 'point', 'analog')]
    indexsites.const_accessor_rule(prog, res, muts, rule_name='guard-positions')
    return res
