"""Value of a scalar local at a use, as polynomials over canonical atoms — one per consistent CFG
path from the local's declaration to the use (loop-free regions only).  Branch conditions with the
same canonical rendering are given the same truth value along a path (they are re-evaluations of
the same unmodified state)."""
from paths import Renderer
import poly as P


class Undecided(Exception):
    pass


def _assign_effect(fn, n, var_id, R, cur):
    """new polynomial of var after executing node n (or cur if n does not write var)"""
    k = n['k']
    if k == 'DeclStmt':
        for d in n['decls']:
            if d['id'] == var_id:
                if 'init' not in d:
                    return None
                return P.poly(fn, d['init'], R)
        return cur

    def is_var(i):
        m = fn.nodes[fn.strip(i, 'all')]
        return m['k'] == 'DeclRefExpr' and m['decl'].get('id') == var_id and m['decl'].get('dk') == 'local'
    if k == 'BinaryOperator' and n['op'] == '=' and is_var(n['ch'][0]):
        return subst(fn, n['ch'][1], var_id, R, cur)
    if k == 'CompoundAssignOperator' and is_var(n['ch'][0]):
        rhs = subst(fn, n['ch'][1], var_id, R, cur)
        if rhs is None or cur is None:
            return None
        op = n['op']
        if op == '*=':
            return P.mul(cur, rhs)
        if op == '+=':
            return P.add(cur, rhs)
        if op == '-=':
            return P.add(cur, rhs, -1)
        raise Undecided('compound %s on local' % op)
    if k == 'UnaryOperator' and n['op'] in ('++', '--') and is_var(n['ch'][0]):
        if cur is None:
            return None
        return P.add(cur, P.const(1), 1 if n['op'] == '++' else -1)
    return cur


def conditional_alts(fn, n, var_id, R):
    """DeclStmt / assignment of the local whose value is  c ? a : b  -> [(cond render, truth, value node)]"""
    rhs = None
    if n['k'] == 'DeclStmt':
        for d in n['decls']:
            if d['id'] == var_id and 'init' in d:
                rhs = d['init']
    elif n['k'] == 'BinaryOperator' and n['op'] == '=':
        t = fn.nodes[fn.strip(n['ch'][0], 'all')]
        if t['k'] == 'DeclRefExpr' and t['decl'].get('id') == var_id and t['decl'].get('dk') == 'local':
            rhs = n['ch'][1]
    if rhs is None:
        return None
    r = fn.nodes[fn.strip(rhs, 'all')]
    if r['k'] != 'ConditionalOperator':
        return None
    key = R.render(r['cond'])
    if 'local:' in key:
        return None
    return [(key, True, r['lhs']), (key, False, r['rhs'])]


def subst(fn, i, var_id, R, cur):
    """polynomial of expression i where occurrences of var stand for `cur`"""
    p = P.poly(fn, i, R)
    name = None
    for n in fn.all_nodes({'DeclStmt'}):
        for d in n['decls']:
            if d['id'] == var_id:
                name = d['name']
    atom = 'local:%s' % name
    if not any(atom in m for m in p):
        return p
    if cur is None:
        return None
    out = {}
    for m, c in p.items():
        term = P.const(c)
        for a in m:
            term = P.mul(term, cur if a == atom else {(a,): 1})
        out = P.add(out, term)
    return out


def cases_at(fn, var_id, use_node, max_paths=64):
    """-> list of (polynomial, {condition rendering: truth}) — one per consistent path"""
    return values_at(fn, var_id, use_node, max_paths, want_cases=True)


def values_at(fn, var_id, use_node, max_paths=64, want_cases=False):
    """-> list of polynomials (distinct) the local may hold when `use_node` is evaluated"""
    g = fn.events()
    R = Renderer(fn)
    # the Renderer substitutes single-def locals itself; multi-def ones render as local:<name>
    decl_v = None
    for n in fn.all_nodes({'DeclStmt'}):
        for d in n['decls']:
            if d['id'] == var_id:
                decl_v = g.vertex_of.get(n['id'])
    use_v = g.vertex_of.get(use_node)
    if decl_v is None or use_v is None:
        raise Undecided('declaration or use not in the CFG')
    results = []
    cases = []
    npaths = [0]

    # vertices that modify the local; a modification on a cycle cannot be summarised
    mod_v = set()
    for vid in list(g.verts.keys()):
        nid = g.node_of(vid)
        if nid is None:
            continue
        n = fn.nodes[nid]
        if n['k'] == 'DeclStmt':
            continue
        if _assign_effect(fn, n, var_id, R, {('#probe',): 1}) != {('#probe',): 1}:
            mod_v.add(vid)
    for mv in mod_v:
        if mv in g.reach([mv]):
            raise Undecided('the local is modified inside a loop')

    def walk(v, cur, val, seen, skip_first=False):
        if npaths[0] > max_paths:
            raise Undecided('too many paths')
        first = True
        while True:
            if v in seen:
                return   # a loop that does not modify the local: one traversal is enough
            seen = seen | {v}
            skip = skip_first and first
            first = False
            if v == use_v:
                npaths[0] += 1
                cases.append((cur, dict(val)))
                if cur is None:
                    results.append(None)
                elif not any(P.equal(cur, r) for r in results if r is not None):
                    results.append(cur)
                return
            if isinstance(v, str):
                return
            nid = g.node_of(v)
            if nid is not None and not skip:
                alts = conditional_alts(fn, fn.nodes[nid], var_id, R)
                if alts:
                    todo = []
                    for key, truth, vn in alts:
                        if key in val and val[key] != truth:
                            continue
                        nv = dict(val)
                        nv[key] = truth
                        todo.append((subst(fn, vn, var_id, R, cur), nv))
                    if not todo:
                        return
                    for c2, v2 in todo[1:]:
                        walk(v, c2, v2, seen - {v}, skip_first=True)
                    cur, val = todo[0]
                else:
                    cur = _assign_effect(fn, fn.nodes[nid], var_id, R, cur)
            if v in g.branch and g.branch[v]['cond'] >= 0 and len(g.branch[v]['targets']) == 2 and not g.branch[v]['tempdtor']:
                key = R.render(g.branch[v]['cond'])
                stable = 'local:' not in key
                if stable and key in val:
                    tg = g.branch[v]['targets'][0 if val[key] else 1]
                    for t in tg[1:]:
                        walk(t, cur, val, seen)
                    if not tg:
                        return
                    v = tg[0]
                    continue
                for b, tg in ((True, g.branch[v]['targets'][0]), (False, g.branch[v]['targets'][1])):
                    nv = dict(val)
                    if stable:
                        nv[key] = b
                    for t in tg:
                        walk(t, cur, nv, seen)
                return
            succ = [s for s in g.succ.get(v, []) if not (isinstance(s, tuple) and g.blocks[s[0]].get('labelk') == 'CXXCatchStmt' and s[1] == 0)]
            if not succ:
                return
            for t in succ[1:]:
                walk(t, cur, val, seen)
            v = succ[0]

    # only vertices from which the use is reachable matter
    can_reach = set()
    # backward reachability
    st = [use_v]
    while st:
        x = st.pop()
        if x in can_reach:
            continue
        can_reach.add(x)
        st.extend(g.pred.get(x, []))
    if decl_v not in can_reach:
        raise Undecided('use not reachable from the declaration')
    orig_succ = g.succ
    # restrict the walk to vertices that can reach the use (prunes exits and unrelated branches)

    def walk_pruned(v, cur, val, seen):
        return walk(v, cur, val, seen)
    pruned = {a: [b for b in bs if b in can_reach] for a, bs in orig_succ.items()}
    pruned_branch = {}
    for v, br in g.branch.items():
        pruned_branch[v] = dict(br, targets=[[t for t in tg if t in can_reach] for tg in br['targets']])
    g2 = type('G', (), {})()
    g2.succ, g2.branch, g2.blocks, g2.node_of, g2.vertex_of = pruned, pruned_branch, g.blocks, g.node_of, g.vertex_of
    g = g2
    walk(decl_v, None, {}, frozenset())
    if want_cases:
        return cases
    return results


def expr_values_at(fn, expr, use_node):
    """polynomials expression `expr` may evaluate to at `use_node` (multi-definition locals are
    replaced by their possible values); raises Undecided"""
    R = Renderer(fn)
    p = P.poly(fn, expr, R)
    names = {}
    for n in fn.all_nodes({'DeclStmt'}):
        for d in n['decls']:
            names['local:%s' % d['name']] = d['id']
    atoms = {a for m in p for a in m if a in names}
    alts = [p]
    for a in sorted(atoms):
        vals = values_at(fn, names[a], use_node)
        if any(v is None for v in vals):
            raise Undecided('local %s may be uninitialised' % a)
        new = []
        for q in alts:
            for v in vals:
                out = {}
                for m, c in q.items():
                    term = P.const(c)
                    for x in m:
                        term = P.mul(term, v if x == a else {(x,): 1})
                    out = P.add(out, term)
                if not any(P.equal(out, r) for r in new):
                    new.append(out)
        alts = new
    return alts
