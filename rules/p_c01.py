"""C01 — build -> save -> load returns the same content (partial claim: three necessary conditions)."""
from result import Result
import codec_rules as CR


def run(prog, tier):
    res = Result('C01', tier,
                 'Codec table agreement: the writer\'s and the reader\'s I/O sequences (extracted from the AST, callee sequences spliced, widths as '
                 'polynomials, locals evaluated path-sensitively) are each matched field by field against the C3D layout table, so that every member '
                 'written is read back into the same member at the same offset with the same width, the scalar/lock/id encodings are inverse pairs '
                 'and names pass through toUpper on both record writers; plus copy completeness (A14) of every user-provided copy constructor.',
                 assumptions=['spec/c3d_layout.json transcribes the C3D layout correctly', 'std::vector copies are element-wise copies'],
                 not_decided=['equality of values for every content (needs execution)', 'the back-patch arithmetic', 'history independence'])
    ok = CR.sign_only_scale(prog)
    CR.header_writer_rule(prog, res, 'codec-agree/header-write', int_scale_ok=True)
    CR.header_reader_rule(prog, res, 'codec-agree/header-read', int_scale_ok=True)
    CR.parameters_writer_rule(prog, res, 'codec-agree/parameters-write')
    CR.parameters_reader_rule(prog, res, 'codec-agree/parameters-read')
    CR.group_writer_rule(prog, res, 'codec-agree/group-write')
    CR.group_reader_rule(prog, res, 'codec-agree/group-read')
    CR.parameter_writer_rule(prog, res, 'codec-agree/parameter-write')
    CR.parameter_reader_rule(prog, res, 'codec-agree/parameter-read')
    CR.frame_writer_rule(prog, res, 'codec-agree/frame-write')
    CR.frame_reader_rule(prog, res, 'codec-agree/frame-read')
    CR.data_offset_rule(prog, res, 'codec-agree/data-offset')
    CR.copy_completeness_rule(prog, res)
    CR.default_scale_rule(prog, res)
    # the data section is sized from the header after updateHeader() reconciled it with the parameters just read:
    # the reconciliation table is part of what a load depends on
    import p_c05
    p_c05.sync_table_rule(prog, res, rule='load-reconcile')
    CR.reader_refusals_rule(prog, res)
    # strings are stored trimmed: the trimmer must empty a cell made only of padding
    import p_c11
    p_c11.check_trimmer(prog, res, 'string-trim')
    # the content that is saved is the content the value setters stored
    import setters
    setters.rule(prog, res, {'ezc3d::DataNS::Points3dNS::Point', 'ezc3d::DataNS::AnalogsNS::Channel'}, rule_name='build-setters', minimum=5, exclusive=True)
    return res
