"""C15 — a save that did not reach the disk is reported.

Typestate analysis of the output stream in ezc3d::c3d::write, over the real CFG:
abstract state (failed, dirty, open, throwing) where
  failed   = failbit|badbit is set (sticky: nothing but clear()/setstate clears it — rule `hide`)
  dirty    = bytes were handed to the stream since the last explicit close()/flush()
  open     = the file is open
  throwing = exceptions(failbit|badbit) is enabled
Every event that can fail (open, write, passing the stream to a section writer, seek, flush,
close) nondeterministically sets `failed`; branches on is_open()/fail()/good()/!f/bool(f) are
followed path-sensitively.  The property holds iff the normal exit is unreachable with
failed or dirty.  A failure at *any* byte offset is covered because every write event may fail.
Plus who-may rules over the rest of the save call graph (nothing clears / hides the state, nobody
else opens an output file)."""
from facts import AnalysisBroken, eval_bool, CALL_KINDS
from result import Result

STREAM_TYPES = ('std::basic_fstream<char>', 'std::basic_ofstream<char>', 'std::basic_ostream<char>',
                'std::basic_iostream<char>')
TESTS = {'is_open', 'fail', 'good', 'bad', 'operator!', 'operator bool', 'eof', 'rdstate'}
WRITES = {'write', 'put', 'operator<<'}
POSITION = {'tellg', 'tellp', 'seekg', 'seekp', 'read', 'get', 'peek', 'gcount', 'sync', 'ignore'}   # move / look: may fail, never un-fail
HIDERS = {'clear', 'setstate', 'rdbuf', 'swap', 'operator=', 'copyfmt'}
IOFAIL = 'std::ios_base::failure'


def is_stream_type(t):
    t = t.replace('const ', '').replace(' &', '').strip()
    return t in STREAM_TYPES


def stream_uses(fn, var_pred):
    """{call node id: (kind, name)} for every call in fn that uses a stream variable selected by
    var_pred(decl) as object or argument"""
    out = {}
    for n in fn.calls():
        obj = fn.call_obj(n)
        name = n['callee']['name']

        def is_var(i):
            if i is None:
                return False
            m = fn.nodes[fn.strip(i, 'all')]
            return m['k'] == 'DeclRefExpr' and var_pred(m['decl'])
        if obj is not None and is_var(obj):
            out[n['id']] = ('member', name)
        else:
            for a in fn.call_args(n):
                if is_var(a):
                    out[n['id']] = ('arg', name)
                    break
    return out


# C library file operations that report failure only through their return value: in the save path a dropped or
# tolerated failure means the destination was not (completely) produced although save returns normally
STATUS_CALLS = {'rename': 'the finished file is moved onto the destination', 'fclose': 'buffered output is flushed by fclose',
                'fflush': 'buffered output is flushed', 'fsync': 'the file is synchronised', 'fwrite': 'the block is written', 'fputc': 'the byte is written',
                'fputs': 'the text is written', 'link': 'the file is linked onto the destination'}


def status_calls_rule(prog, res, w, save):
    from paths import Renderer
    n_calls = 0
    for u in sorted(set(save) | {w.usr}):
        f = prog.funcs.get(u)
        if f is None or f.body is None:
            continue
        R = None
        for c in f.calls():
            cal = c['callee']
            if cal.get('inrepo') or cal.get('class') or cal['name'] not in STATUS_CALLS:
                continue
            n_calls += 1
            R = R or Renderer(f)
            inst = '%s in %s' % (cal['name'], f.name)
            what = STATUS_CALLS[cal['name']]
            # the statement the call belongs to
            guard = None
            stmt_parent = None
            prev = c['id']
            direct = True
            for a in f.ancestors(c['id']):
                an = f.nodes[a]
                if an['k'] == 'IfStmt':
                    if prev == an.get('cond') or prev in f.descendants(an['cond']):
                        guard = an
                    else:
                        stmt_parent = {'k': 'CompoundStmt'} if direct else an
                    break
                if an['k'] in ('CompoundStmt', 'ForStmt', 'WhileStmt', 'DoStmt', 'CXXForRangeStmt', 'CaseStmt', 'DefaultStmt', 'SwitchStmt', 'DeclStmt', 'ReturnStmt'):
                    stmt_parent = an if (direct or an['k'] != 'CompoundStmt') else {'k': 'other'}
                    break
                if an['k'] not in ('ImplicitCastExpr', 'ParenExpr', 'ExprWithCleanups', 'CStyleCastExpr', 'CXXStaticCastExpr', 'CXXFunctionalCastExpr'):
                    direct = False
                prev = a
            if guard is None and stmt_parent is not None and stmt_parent['k'] == 'CompoundStmt':
                res.viol('status', inst, f.loc(c['id']), 'the result of %s() is dropped (%s): when it fails, save still returns normally' % (cal['name'], what),
                         function=f.sig, expr='%s@drop' % cal['name'], sure=True)
                continue
            if guard is None:
                res.undecided('status', inst, f.loc(c['id']), 'the result of %s() is used in a form the rule does not read [shape not read by the rule]' % cal['name'],
                              function=f.sig, expr='%s@use' % cal['name'])
                continue
            cond = R.render(guard['cond']).replace('(bool)', '')
            callr = R.render(c['id'])
            fail_then = None
            cc = cond.strip()
            while cc.startswith('(') and cc.endswith(')') and cc[1:-1].count('(') == cc[1:-1].count(')') and not cc[1:-1].startswith(')'):
                cc = cc[1:-1].strip()
            neg = 0
            while cc.startswith('!'):
                neg += 1
                cc = cc[1:].strip()
                while cc.startswith('(') and cc.endswith(')') and cc[1:-1].count('(') == cc[1:-1].count(')'):
                    cc = cc[1:-1].strip()
            if cc == callr:
                fail_then = True
            elif cc in (callr + ' != 0', '0 != ' + callr, callr + ' < 0', callr + ' == -1', callr + ' > 0' if cal['name'] in ('rename', 'fclose', 'fflush', 'fsync', 'link') else '#'):
                fail_then = True
            elif cc in (callr + ' == 0', '0 == ' + callr, callr + ' >= 0'):
                fail_then = False
            if fail_then is None or cal['name'] in ('fwrite', 'fputc', 'fputs'):
                res.undecided('status', inst, f.loc(c['id']), 'the test on the result of %s() is not in a form the rule reads (%s) [shape not read by the rule]' % (cal['name'], cond),
                              function=f.sig, expr='%s@cond' % cal['name'])
                continue
            if neg % 2:
                fail_then = not fail_then
            branch = guard['then'] if fail_then else guard.get('else')
            leaves = False
            if branch is not None:
                for d in f.descendants(branch):
                    dn = f.nodes[d]
                    if dn['k'] == 'CXXThrowExpr' or (dn['k'] in ('CallExpr', 'CXXMemberCallExpr') and dn.get('callee', {}).get('noreturn')):
                        leaves = True
            if not leaves and not fail_then and 'else' not in guard:
                # `if (ok) {...}` then falls through: failure continues after the if
                branch = None
            if leaves:
                res.ok('status', inst, f.loc(c['id']), 'a failing %s() reaches a throw' % cal['name'], function=f.sig, expr='%s@%d' % (cal['name'], c['id']))
            else:
                res.viol('status', inst, f.loc(c['id']), 'when %s() fails (%s) no exception is raised on that branch: save returns normally although the destination was not produced' % (cal['name'], what),
                         function=f.sig, expr='%s@tolerated' % cal['name'], sure=True)
    res.info['status_returning_file_calls_in_save_path'] = n_calls


def run(prog, tier):
    res = Result('C15', tier,
                 'Typestate analysis (failed/dirty/open/throwing) of the output stream over every CFG '
                 'path of ezc3d::c3d::write with every output event allowed to fail, plus who-may '
                 'rules (nothing clears or hides the stream state; nobody else opens an output file) '
                 'over the whole save call graph. Decides: normal return implies the stream was '
                 'explicitly closed/flushed and tested, and a failed open or write at any offset '
                 'reaches a throw of std::ios_base::failure.',
                 assumptions=['libstdc++ basic_filebuf reports short write(2)/ENOSPC as badbit, failed '
                              'open/close as failbit; stream error state is sticky until clear()',
                              'allocation failure is outside the property'],
                 not_decided=[])
    w = prog.fn('ezc3d::c3d::write', nparams=1)
    save = prog.reachable_from([w])
    res.info['save_callgraph_functions'] = len(save)

    # ---- who-may rules over SAVE \ {write} -------------------------------------------------
    nstream_uses = 0
    helper_owns_stream = []
    for u in sorted(save):
        f = prog.funcs[u]
        if f is w:
            continue
        sparams = {p['id'] for p in f.params if is_stream_type(p['type'])}
        if sparams:
            uses = stream_uses(f, lambda d: d.get('dk') == 'param' and d.get('id') in sparams)
            for nid, (kind, name) in uses.items():
                n = f.nodes[nid]
                nstream_uses += 1
                if kind == 'member':
                    only_write_ = (f.rec.get('internal') or '(anonymous namespace)' in f.qname) and {g_.usr for g_, _c in prog.callers_of(f.usr)} == {w.usr}
                    if name in ('close', 'open', 'flush') and only_write_:
                        # a file-local part of c3d::write itself (it closes / opens the stream for it): the typestate below does not look into it
                        helper_owns_stream.append((f, nid, name))
                        res.undecided('hide', '%s on the output stream' % name, f.loc(nid), 'c3d::write hands the %s() of its stream to the file-local helper %s; the stream state after that call is not followed into '
                                      'the helper [shape not read by the rule]' % (name, f.name), function=f.sig, expr=name)
                    elif name in HIDERS or name in ('exceptions', 'close', 'open'):
                        res.viol('hide', '%s on the output stream' % name, f.loc(nid),
                                 'a section writer changes or hides the stream state', function=f.sig, expr=name)
                    elif name in WRITES or name in POSITION or name in TESTS or name == 'flush':
                        res.ok('hide', name, f.loc(nid), function=f.sig, expr='%s@%d' % (name, nid), nontrivial=False)
                    else:
                        res.undecided('hide', name, f.loc(nid), 'unknown stream member', function=f.sig, expr=name)
                else:
                    cu = n['callee']['usr']
                    if 'ostreambuf_iterator' in str(n['callee'].get('qname', '')) or 'ostreambuf_iterator' in str(n['callee'].get('class', '')):
                        # [ostreambuf.iterator]: writes go to the stream buffer with sputc; a failure is remembered in the iterator's own failed() flag only
                        res.viol('hide', 'std::ostreambuf_iterator on the output stream', f.loc(nid), 'output is sent through std::ostreambuf_iterator: a failed write sets the iterator\'s private failed() flag, never the '
                                 'stream state that save tests, so the failure is not reported', function=f.sig, expr='ostreambuf_iterator', sure=True)
                    elif cu in save and cu in prog.funcs:
                        res.ok('hide', 'passes stream to ' + n['callee']['qname'], f.loc(nid), function=f.sig,
                               expr='pass:%s@%d' % (n['callee']['qname'], nid), nontrivial=False)
                    else:
                        res.undecided('hide', 'passes stream to ' + n['callee']['qname'], f.loc(nid),
                                      'stream escapes to a function outside the save call graph', function=f.sig,
                                      expr='pass:' + n['callee']['qname'])
        # handlers that swallow in SAVE
        for t in f.all_nodes({'CXXCatchStmt'}):
            body = f.descendants(t['body'])
            if not any(f.nodes[x]['k'] == 'CXXThrowExpr' for x in body):
                res.viol('swallow', 'handler without rethrow', f.loc(t['id']),
                         'a handler in the save path swallows an exception', function=f.sig, expr='catch')
    # `os << streambuf*` copies until the first failed insertion and sets failbit only when NOTHING was inserted
    # ([ostream.inserters]/8): a partly written block leaves the stream good - not a checked write
    for u in sorted(save):
        f = prog.funcs[u]
        for n in f.calls():
            c = n['callee']
            if c['name'] == 'operator<<' and str(c.get('classq', '')).startswith('std::basic_ostream') and any('basic_streambuf' in str(t) for t in c.get('ptypes', [])):
                res.viol('hide', 'operator<<(streambuf*) on the output stream', f.loc(n['id']),
                         'the block is copied with `stream << buffer`: a write failure after the first byte does not set any error bit (failbit only if no character at all was inserted), '
                         'so a truncated file is reported as saved', function=f.sig, expr='streambuf-insert')
    # nobody else opens an output stream
    openers = 0
    for f in prog.repo_funcs():
        for n in f.calls():
            c = n['callee']
            if c.get('classq') in ('std::basic_fstream', 'std::basic_ofstream') and \
                    (f.nodes[n['id']]['k'] == 'CXXConstructExpr' or c['name'] == 'open') and c['nparams'] >= 1:
                mode = None
                for a in f.call_args(n):
                    an = f.nodes[f.strip(a, 'all')]
                    if an.get('t') in ('std::_Ios_Openmode', 'const std::_Ios_Openmode', 'const std::ios_base::openmode', 'std::ios_base::openmode'):
                        from paths import const_value
                        cvv = const_value(f, a)
                        if cvv is not None:
                            mode = cvv
                is_out = mode is None and c.get('classq') == 'std::basic_ofstream' or (mode is not None and mode & 16)
                if c.get('classq') == 'std::basic_fstream' and mode is None and c['nparams'] == 1:
                    is_out = True  # default mode in|out
                if is_out:
                    openers += 1
                    # a file-local helper that only c3d::write calls (it opens the stream and hands it back) is part of it
                    only_write = (f.rec.get('internal') or '(anonymous namespace)' in f.qname) and {g_.usr for g_, _c in prog.callers_of(f.usr)} == {w.usr}
                    if f is not w and not only_write:
                        res.viol('opener', 'output stream opened outside c3d::write', f.loc(n['id']),
                                 'another function opens a file for output: its state is not checked',
                                 function=f.sig, expr='open')
    status_calls_rule(prog, res, w, save)
    res.minimum('stream uses in section writers', nstream_uses, 20)
    res.minimum('output-file openers', openers, 1)

    # ---- typestate over c3d::write ------------------------------------------------------------
    g = w.events()
    svars = {}
    for n in w.all_nodes({'DeclStmt'}):
        for d in n['decls']:
            if is_stream_type(d['type']) and d['dk'] == 'local':
                svars[d['id']] = d
    if len(svars) != 1:
        raise AnalysisBroken('c3d::write has %d local output streams (rule knows exactly one)' % len(svars))
    sid = list(svars)[0]
    uses = stream_uses(w, lambda d: d.get('dk') == 'local' and d.get('id') == sid)
    # the constructor call in the DeclStmt
    ctor = None
    for n in w.all_nodes({'DeclStmt'}):
        for d in n['decls']:
            if d['id'] == sid and 'init' in d:
                ci = w.strip(d['init'], 'all')
                if w.nodes[ci]['k'] == 'CXXConstructExpr':
                    ctor = ci

    import validators
    vg_calls = {}
    for vg in validators.virtual_guards(prog, w):
        vg_calls.setdefault(vg['call'], []).append(vg)

    def lit_value(i):
        """null / non-null / true / false for a literal initialiser or right-hand side, else None"""
        m = w.nodes[w.strip(i, 'all')]
        if m['k'] in ('CXXNullPtrLiteralExpr', 'GNUNullExpr') or (m['k'] == 'IntegerLiteral' and str(m.get('v')) == '0'):
            return 'null'
        if m['k'] == 'StringLiteral':
            return 'nonnull'
        if m['k'] == 'CXXBoolLiteralExpr':
            return 'nonnull' if m.get('v') else 'null'
        return None

    def update_env(nid, env):
        """simple local flags (a pointer or bool set from literals: `const char* problem = nullptr; ... problem = "...";`)"""
        if nid is None:
            return env
        n = w.nodes[nid]
        e = dict(env)
        if n['k'] == 'DeclStmt':
            for d in n['decls']:
                if d.get('tc') in ('p', 'b') and 'init' in d:
                    v = lit_value(d['init'])
                    if v is not None:
                        e[d['id']] = v
                    else:
                        e.pop(d['id'], None)
        elif n['k'] == 'BinaryOperator' and n['op'] == '=':
            t = w.nodes[w.strip(n['ch'][0], 'all')]
            if t['k'] == 'DeclRefExpr' and t['decl'].get('dk') == 'local':
                v = lit_value(n['ch'][1])
                if v is not None:
                    e[t['decl']['id']] = v
                else:
                    e.pop(t['decl']['id'], None)
        return frozenset(e.items()) if e != dict(env) else env

    def atom(state):
        failed, dirty, opn, thr = state[:4]
        env = dict(state[4]) if len(state) > 4 else {}

        def flag(i):
            m = w.nodes[w.strip(i, 'all')]
            if m['k'] == 'DeclRefExpr' and m['decl'].get('dk') == 'local' and m['decl'].get('id') in env:
                return env[m['decl']['id']]
            return None

        def rd_mask(i, depth=0):
            """i is `f.rdstate()` (mask: all bits) or `f.rdstate() & M` / a const local initialised with one of these -> mask, else None"""
            m = w.nodes[w.strip(i, 'all')]
            if i in uses and uses[i][0] == 'member' and uses[i][1] == 'rdstate':
                return 7
            if m['id'] in uses and uses[m['id']][0] == 'member' and uses[m['id']][1] == 'rdstate':
                return 7
            if m['k'] == 'DeclRefExpr' and m['decl'].get('dk') == 'local' and depth < 3:
                from paths import local_init as _li3
                ini = _li3(w, m['decl']['id'])
                return rd_mask(ini, depth + 1) if ini is not None else None
            if m['k'] in ('BinaryOperator', 'CXXOperatorCallExpr') and (m.get('op') == '&'):
                kids = m['ch'] if m['k'] == 'BinaryOperator' else m.get('args', [])
                if len(kids) == 2:
                    from paths import const_value as _cv3
                    for x, y in ((kids[0], kids[1]), (kids[1], kids[0])):
                        mk = rd_mask(x, depth + 1)
                        cv = _cv3(w, y)
                        if mk is not None and cv is not None:
                            return mk & int(cv)
            return None

        def a(i):
            n = w.nodes[i]
            # the state word compared with goodbit:  (f.rdstate() & (failbit | badbit)) == goodbit   [libstdc++: badbit 1, eofbit 2, failbit 4]
            if n['k'] in ('BinaryOperator', 'CXXOperatorCallExpr') and n.get('op') in ('==', '!='):
                kids = n['ch'] if n['k'] == 'BinaryOperator' else n.get('args', [])
                if len(kids) == 2:
                    from paths import const_value as _cv4
                    for x, y in ((kids[0], kids[1]), (kids[1], kids[0])):
                        mk = rd_mask(x)
                        cv = _cv4(w, y)
                        if mk is not None and cv is not None and int(cv) == 0 and (mk & 5) == 5:
                            isfailed = failed in (True, 'open')
                            return (not isfailed) if n.get('op') == '==' else isfailed
                        if mk is not None and cv is not None and int(cv) != 0 and (int(cv) & 5) and failed is False:
                            return n.get('op') != '=='      # no error bit is set: the word is not equal to a value with error bits
            # a local flag compared with null / used as a condition
            if n['k'] == 'BinaryOperator' and n['op'] in ('==', '!='):
                for x, y in ((n['ch'][0], n['ch'][1]), (n['ch'][1], n['ch'][0])):
                    fv = flag(x)
                    if fv is not None and lit_value(y) == 'null':
                        return (fv == 'null') if n['op'] == '==' else (fv != 'null')
            fv = flag(i)
            if fv is not None:
                return fv != 'null'
            if i in uses and uses[i][0] == 'member':
                name = uses[i][1]
                if name == 'is_open':
                    return opn
                # failed == 'lost': a failure happened and the error state was cleared afterwards (the stream tests good again)
                if name in ('fail', 'operator!'):
                    return failed in (True, 'open')
                if name in ('good', 'operator bool'):
                    return failed not in (True, 'open')
                if name == 'bad':
                    return None if failed is True else False
            # bool(f) through the conversion operator shows as a member call named 'operator bool'
            return None
        return a

    unknown = []
    # calls of local lambdas that touch the stream
    from paths import local_init
    lam_calls = {}
    for n in w.all_nodes({'CXXOperatorCallExpr'}):
        if n.get('op') != '()' or not n.get('args'):
            continue
        o_ = w.nodes[w.strip(n['args'][0], 'all')]
        if o_['k'] != 'DeclRefExpr' or o_['decl'].get('dk') != 'local':
            continue
        ini = local_init(w, o_['decl']['id'])
        lam = None
        if ini is not None:
            for x in [ini] + list(w.descendants(ini)):
                if w.nodes[x]['k'] == 'LambdaExpr':
                    lam = w.nodes[x]
                    break
        if lam is None:
            continue
        inside = set(w.descendants(lam['id']))
        if not any(u in inside for u in uses):
            continue        # does not touch the stream
        body = [x for x in lam['ch'] if w.nodes[x]['k'] == 'CompoundStmt']
        st = [w.nodes[x] for x in w.nodes[body[0]]['ch']] if body else []
        ent = None
        if len(st) == 1 and st[0]['k'] == 'IfStmt' and 'else' not in st[0] and not lam.get('lparams'):
            th = [w.nodes[x]['k'] for x in w.descendants(st[0]['then'])]
            only_tests = all(uses[u][0] == 'member' and uses[u][1] in TESTS for u in uses if u in inside)
            if 'CXXThrowExpr' in th and only_tests:
                ent = {'cond': st[0]['cond'], 'then_throws': True}
        lam_calls[n['id']] = ent

    def step(vid, state):
        env = state[4] if len(state) > 4 else frozenset()
        env2 = update_env(g.node_of(vid), env)
        if vid in outv_:
            env2 = frozenset(set(env2) | {('#wrote', 'nonnull')})     # something was handed to the stream on this path
        return [(ns[:4] + (env2,), tg) for ns, tg in step4(vid, state[:4] + (env,))]

    def step4(vid, state):
        """abstract transfer of the event at vertex vid: list of (state, target) where target is
        'next' or 'throw'"""
        failed, dirty, opn, thr = state[:4]
        state = state[:4]
        nid = g.node_of(vid)
        if nid is None:
            return [(state, 'next')]
        outs = []

        def may_fail(ns, output=False):
            f2, d2, o2, t2 = ns
            if f2 == 'open' and output:
                # output handed to a stream whose open failed is discarded: from here on it is a lost write
                f2 = True
                ns = (f2, d2, o2, t2)
            if t2:
                return [(ns, 'next'), ((True, d2, o2, t2), 'throw')]
            return [(ns, 'next'), ((True, d2, o2, t2), 'next')]
        if nid in vg_calls:
            # a refusing helper called with a stream test: `helper(f.fail(), ...)` with helper(bool c) { if (c) throw ...; }
            from facts import eval_bool
            res_ = []
            for vg in vg_calls[nid]:
                cf = vg['callee']
                cn = cf.nodes[cf.strip(vg['cond'], 'all')]
                neg = False
                while cn['k'] == 'UnaryOperator' and cn['op'] == '!':
                    neg = not neg
                    cn = cf.nodes[cf.strip(cn['ch'][0], 'all')]
                if cn['k'] == 'DeclRefExpr' and cn['decl'].get('dk') == 'param':
                    pidx = [p_['id'] for p_ in cf.params].index(cn['decl']['id'])
                    args = w.call_args(w.nodes[nid])
                    if pidx < len(args):
                        val = eval_bool(w, args[pidx], atom(state))
                        if val is not None:
                            val = (not val) if neg else val
                            throws = (val == vg['throws_when'])
                            res_.append('throw' if throws else 'next')
                            continue
                res_.append(None)
            if res_ and all(r is not None for r in res_):
                if 'throw' in res_:
                    return [(state, 'throw')]
                return [(state, 'next')]
        if nid in lam_calls:
            # a local lambda `auto check = [&]{ if (f.fail()) throw ...; };` called here: a test of the stream followed by a throw
            lc = lam_calls[nid]
            if lc is None:
                unknown.append((nid, 'the stream is used inside a local lambda whose body is not `if (<stream test>) throw ...;`'))
                return [(state, 'next')]
            val = eval_bool(w, lc['cond'], atom(state + (frozenset(),)))
            if val is True:
                return [(state, 'throw' if lc['then_throws'] else 'next')]
            if val is False:
                return [(state, 'next')]
            return [(state, 'next'), (state, 'throw')]
        if nid == ctor:
            n = w.nodes[nid]
            if n['callee']['nparams'] == 0:
                return [((False, False, False, False), 'next')]
            return [((False, False, True, False), 'next'), (('open', False, False, False), 'next')]
        if nid in uses:
            kind, name = uses[nid]
            if kind == 'arg':
                cu = w.nodes[nid]['callee']['usr']
                if cu in prog.funcs:
                    return may_fail((failed, True, opn, thr), output=True)
                unknown.append((nid, 'stream passed to ' + w.nodes[nid]['callee']['qname']))
                return [(state, 'next')]
            if name in WRITES:
                return may_fail((failed, True, opn, thr), output=True)
            if name in POSITION:
                return may_fail(state)
            if name == 'flush':
                return may_fail((failed, False, opn, thr))
            if name == 'close':
                return may_fail((failed, False, False, thr))
            if name == 'open':
                # a successful open() calls clear() (C++11 [fstream.members]): whatever failed before is forgotten
                # (failed == 'open': only an open has failed so far - nothing was handed to the stream, trying again loses nothing)
                cleared = False if failed in (False, 'open') else 'lost'
                again = 'open' if failed in (False, 'open') else failed
                return [((cleared, dirty, True, thr), 'next')] + \
                       ([((again, dirty, False, thr), 'throw')] if thr else [((again, dirty, False, thr), 'next')])
            if name in TESTS:
                return [(state, 'next')]
            if name == 'exceptions':
                args = w.call_args(w.nodes[nid])
                if not args:
                    return [(state, 'next')]
                an = w.nodes[w.strip(args[0], 'all')]
                if 'cv' in an and (int(an['cv']) & 5) == 5:
                    if failed in (True, 'open'):
                        return [((failed, dirty, opn, True), 'throw')]
                    return [((failed, dirty, opn, True), 'next')]
                if 'cv' in an:
                    # a mask without failbit does not report failed flushes / opens / closes (they set failbit):
                    # modelled as not throwing at all, the explicit tests must then do the work
                    return [(state, 'next')]
                unknown.append((nid, 'exceptions() with a non-constant mask'))
                return [(state, 'next')]
            if name in HIDERS:
                # reported separately; model clear() as what it does
                return [(('lost' if failed in (True, 'lost') else False, dirty, opn, thr), 'next')]
            unknown.append((nid, 'unknown stream member ' + name))
        return [(state, 'next')]

    # hide rule inside write itself
    nevents = 0
    for nid, (kind, name) in sorted(uses.items()):
        nevents += 1
        if kind == 'member' and name in HIDERS:
            res.viol('hide', '%s on the output stream' % name, w.loc(nid),
                     'c3d::write clears or replaces the stream state', function=w.sig, expr=name)
    res.minimum('stream events in c3d::write', nevents, 4)

    # branches taken both ways because they test a local the exploration does not track (a status / flag variable set from the stream state):
    # paths through them may be infeasible, so a bad exit found behind one is not evidence
    untracked_flags = set()

    def _note_untracked_flag(cond):
        for x in [cond] + list(w.descendants(cond)):
            m_ = w.nodes[x]
            if m_['k'] == 'DeclRefExpr' and m_['decl'].get('dk') == 'local' and m_['decl'].get('id') != sid and not is_stream_type(str(m_['decl'].get('type', ''))):
                assigned_ = any((a_['k'] == 'BinaryOperator' and a_.get('op') == '=' and w.nodes[w.strip(a_['ch'][0], 'all')].get('decl', {}).get('id') == m_['decl']['id']) for a_ in w.all_nodes({'BinaryOperator'}))
                from paths import local_init as _li5
                ini_ = _li5(w, m_['decl']['id'])
                dep_ = ini_ is not None and any(u in set(w.descendants(ini_)) | {ini_} for u in uses)
                # the state word itself (`state = f.rdstate()`): which error bits it holds after a failure is genuinely open (badbit, failbit or both),
                # so both outcomes of a test of single bits are feasible - not an untracked flag
                is_state_word = ini_ is not None and not assigned_ and any(u in set(w.descendants(ini_)) | {ini_} and uses[u] == ('member', 'rdstate') for u in uses) and \
                    w.nodes[w.strip(ini_, 'all')]['k'] == 'CXXMemberCallExpr'
                if is_state_word:
                    continue
                if assigned_ or dep_:
                    untracked_flags.add(m_['decl'].get('name'))
    # exploration
    outv_ = {g.vertex_of.get(nid) for nid, (kind, name) in uses.items() if (kind == 'arg' and w.nodes[nid]['callee'].get('usr') in prog.funcs) or (kind == 'member' and name in WRITES)}
    outv_.discard(None)
    silent_exit = []
    start = (g.ENTRY, (False, False, False, False, frozenset()))
    seen = {start: None}
    work = [start]
    bad_exit = []
    handler_targets = {}

    def eh_targets(vid):
        # handlers reachable by the EH edges added for this vertex (successors that are not the
        # sequential successor): recompute from try nesting
        outs = []
        b, i = vid
        seq = set()
        if (b, i + 1) in g.verts:
            seq.add((b, i + 1))
        for s in g.succ.get(vid, []):
            if s not in seq and isinstance(s, tuple):
                lab = g.blocks[s[0]].get('labelk')
                if lab == 'CXXCatchStmt' and s[1] == 0:
                    outs.append(s)
        return outs
    nstates = 0
    while work:
        cur = work.pop()
        vid, st = cur
        nstates += 1
        if vid == g.NEXIT:
            if st[0] or st[1]:
                bad_exit.append(cur)
            elif outv_ and ('#wrote', 'nonnull') not in st[4]:
                silent_exit.append(cur)
            continue
        if vid == g.XEXIT:
            continue
        if vid == g.ENTRY:
            nxt = [(st, 'next')]
        else:
            nxt = step(vid, st)
        for ns, tgt in nxt:
            if tgt == 'throw':
                hs = eh_targets(vid) if vid != g.ENTRY else []
                tl = hs if hs else [g.XEXIT]
            else:
                if vid in g.branch:
                    br = g.branch[vid]
                    if br['tempdtor'] or br['termk'] in ('CXXTryStmt',) or br['cond'] < 0 or len(br['targets']) != 2:
                        tl = [t for ts in br['targets'] for t in ts]
                        if br['termk'] == 'SwitchStmt' and br['cond'] >= 0:
                            _note_untracked_flag(br['cond'])
                    else:
                        v = eval_bool(w, br['cond'], atom(ns))
                        if v is True:
                            tl = br['targets'][0]
                        elif v is False:
                            tl = br['targets'][1]
                        else:
                            tl = br['targets'][0] + br['targets'][1]
                            _note_untracked_flag(br['cond'])
                    # EH successors are not part of the branch targets: a throwing call as last
                    # element of a branching block is handled by the 'throw' target above
                else:
                    b_i = vid
                    seqs = g.succ.get(vid, [])
                    # drop EH edges for the normal continuation
                    eh = set(eh_targets(vid)) if vid != g.ENTRY else set()
                    tl = [s for s in seqs if s not in eh] or list(seqs)
            for t in tl:
                nx = (t, ns)
                if nx not in seen:
                    seen[nx] = cur
                    work.append(nx)
    res.info['typestate_states_explored'] = nstates
    for nid, why in unknown:
        res.undecided('typestate', why, w.loc(nid), function=w.sig, expr=why)

    def trace(end):
        out = []
        c = end
        while c is not None:
            out.append(c)
            c = seen[c]
        out.reverse()
        steps = []
        last = None
        for vid, st in out:
            nid = g.node_of(vid) if isinstance(vid, tuple) else None
            lab = vid if isinstance(vid, str) else (w.loc(nid) if nid is not None else None)
            s = 'failed=%s dirty=%d open=%d throwing=%d' % ((st[0] if isinstance(st[0], str) else int(st[0])), int(st[1]), int(st[2]), int(st[3]))
            if lab and (lab, s) != last:
                steps.append('%s [%s]' % (lab, s))
                last = (lab, s)
        return steps

    if bad_exit and untracked_flags:
        res.undecided('typestate', 'c3d::write normal exit', w.loc(), 'the outcome of the save is carried in local variable(s) %s that the exploration does not track: the exits found behind the tests of it may be infeasible '
                      '[shape not read by the rule]' % sorted(untracked_flags), function=w.sig, expr='normal-exit')
        bad_exit = []
    if bad_exit and helper_owns_stream:
        res.undecided('typestate', 'c3d::write normal exit', w.loc(), 'the stream is closed / flushed inside %s, which the typestate does not follow: the state at the normal exit is not decided [shape not read by the rule]' %
                      helper_owns_stream[0][0].name, function=w.sig, expr='normal-exit')
        bad_exit = []
    if bad_exit:
        # report one violation per distinct failing cause
        kinds = {}
        for b in bad_exit:
            st = b[1]
            key = 'returns normally after a failure whose error state was cleared (a successful open() or clear() forgets it) and never reported' if st[0] == 'lost' else \
                  'returns normally with the stream failed' if st[0] else \
                  'returns normally with unflushed output (destructor flush is not checked)'
            kinds.setdefault(key, b)
        for key, b in kinds.items():
            res.viol('typestate', 'c3d::write normal exit', w.loc(), key, function=w.sig, expr=key,
                     facts={'path': trace(b)})
    else:
        res.ok('typestate', 'c3d::write: no normal exit with failed or unflushed stream', w.loc(),
               '%d abstract states explored; %d stream events, each allowed to fail' % (nstates, nevents),
               function=w.sig, expr='normal-exit')
    # every normal return has handed something to the stream: a path that returns before any output (an early `return` on some
    # argument value) reports success for a file that was never produced (decided on the explored states, i.e. with the flags evaluated)
    if outv_:
        if silent_exit:
            res.viol('typestate', 'c3d::write: a normal return without output', w.loc(), 'a path reaches the normal exit without any section having been handed to the stream: '
                     'save returns as if the file had been written', function=w.sig, expr='no-output-path', facts={'path': trace(silent_exit[0])}, sure=True)
        else:
            res.ok('typestate', 'c3d::write: every normal return follows output', w.loc(), '%d output events; none can be bypassed on the way to the normal exit' % len(outv_), function=w.sig, expr='no-output-path')
    # open check precedes the first write event: implied by the typestate result (a failed open
    # sets failed=True which must not reach the normal exit); recorded as its own obligation
    if not bad_exit:
        res.ok('open-check', 'failed open cannot reach normal exit', w.loc(ctor) if ctor is not None else w.loc(),
               function=w.sig, expr='open')
    # thrown class on the failing paths: every throw in c3d::write must be ios_base::failure
    for n in w.all_nodes({'CXXThrowExpr'}):
        t = n.get('throw_t')
        if t == IOFAIL or IOFAIL in n.get('throw_bases', []):
            res.ok('class', 'throw ' + str(t), w.loc(n['id']), function=w.sig, expr='throw@%d' % n['id'])
        else:
            res.viol('class', 'throw ' + str(t), w.loc(n['id']),
                     'save failure must be reported as std::ios_base::failure', function=w.sig, expr='throw:' + str(t))
    return res
