"""C05 — header, POINT/ANALOG parameters and stored data always agree (partial claim).

updater-reach : every public mutator that touches parameters (other than a lock flag) or data passes
                an updater call on every normal path after its last such effect; updateParameters ends
                in updateHeader; the loading constructor reconciles the header before reading data
sync-table    : updateHeader, walked on finite models (A7), calls the header setter with the
                parameter value whenever source and current value differ
param-sync    : updateParameters regenerates FRAMES / USED and the label-like lists from the data
who-may-mutate: section handles are non-public, no const path hands out a mutable reference except
                the documented Frame bypass, c3d is not copyable
derived       : Header's channel-count getter/setter and the sub-frame setter are a rescaling triple"""
import itertools
import re
from facts import AnalysisBroken
from result import Result
from paths import Renderer
from loops import normal_for, enclosing_fors
import effects as FX
import a7
import codec_rules as CR

UPD = ('ezc3d::c3d::updateHeader', 'ezc3d::c3d::updateParameters')
P = lambda g, p: 'this._parameters.group("%s").parameter("%s")' % (g, p)


def always_reaches(prog, f, is_target):
    """every path ENTRY -> NEXIT of f passes a call satisfying is_target"""
    g = f.events()
    tv = {g.vertex_of[n['id']] for n in f.calls() if is_target(n) and g.vertex_of.get(n['id']) is not None}
    return g.NEXIT not in g.reach([g.ENTRY], avoid=tv)


def updater_callers(prog):
    """functions all of whose normal paths call updateHeader / updateParameters (transitively)"""
    known = {f.usr for q in UPD for f in prog.fns(q)}
    changed = True
    while changed:
        changed = False
        for f in prog.repo_funcs():
            if f.usr in known or f.cls != 'ezc3d::c3d':
                continue
            if always_reaches(prog, f, lambda n: n['callee']['usr'] in known):
                known.add(f.usr)
                changed = True
    return known


def updater_reach_rule(prog, res):
    E = FX.get(prog)
    upd = updater_callers(prog)
    uh = prog.fn(UPD[0], nparams=0)
    up = prog.fn(UPD[1], nparams=2)
    if always_reaches(prog, up, lambda n: n['callee']['usr'] == uh.usr):
        res.ok('updater-reach', 'updateParameters ends in updateHeader', up.loc(), function=up.sig, expr='up->uh')
    else:
        res.viol('updater-reach', 'updateParameters ends in updateHeader', up.loc(), 'a normal path of updateParameters does not call updateHeader', function=up.sig, expr='up->uh')
    muts = prog.public_mutators('ezc3d::c3d')
    res.minimum('public mutators of c3d', len(muts), 8)
    for f in muts:
        g = f.events()
        inst = 'c3d::%s(%s)' % (f.name, ', '.join(p['type'].replace('const ', '').replace('std::', '').replace('ezc3d::', '').replace(' &', '').replace('basic_string<char>', 'string').split('::')[-1] for p in f.params))
        evs = []
        for e in E.events_of(f, 'this'):
            nid, root, path, kind = e
            if not path:
                continue
            if path[0] == '_parameters' and path[-1] != '_isLocked':
                evs.append(e)
            elif path[0] == '_data':
                evs.append(e)
        if not evs:
            res.ok('updater-reach', inst, f.loc(), 'does not modify parameters (other than a lock flag) or data', function=f.sig, expr='none', nontrivial=False)
            continue
        uv = {g.vertex_of[n['id']] for n in f.calls() if n['callee']['usr'] in upd and g.vertex_of.get(n['id']) is not None}
        bad = None
        for e in evs:
            v = g.vertex_of.get(e[0])
            if v is None or v in uv:
                continue
            if g.NEXIT in g.reach([v], avoid=uv):
                p = g.path(v, g.NEXIT, avoid=uv)
                bad = (e, p)
                break
        if bad:
            e, p = bad
            res.viol('updater-reach', inst, f.loc(e[0]), 'after %s the function can return without calling updateHeader/updateParameters: header, parameters and data may disagree' % FX.fmt(e),
                     function=f.sig, expr='reach', facts={'path': g.describe_path(p) if p else None})
        else:
            res.ok('updater-reach', inst, f.loc(), 'every normal path after the last parameter/data modification passes an updater call', function=f.sig, expr='reach')


def sync_table_rule(prog, res, rule='sync-table'):
    """walk updateHeader on finite models; collect header-setter calls with evaluated arguments"""
    f = prog.fn(UPD[0], nparams=0)
    R = Renderer(f)
    A = {
        'FRAMES': P('POINT', 'FRAMES') + '.valuesAsInt()[0]', 'USED': P('POINT', 'USED') + '.valuesAsInt()[0]',
        'RATE': P('POINT', 'RATE') + '.valuesAsFloat()[0]', 'AUSED': P('ANALOG', 'USED') + '.valuesAsInt()[0]',
        'ARATE': P('ANALOG', 'RATE') + '.valuesAsFloat()[0]',
        'hFrames': 'this._header.nbFrames()', 'hPoints': 'this._header._nb3dPoints', 'hRate': 'this._header._frameRate',
        'hAnalogs': 'this._header.nbAnalogs()', 'hAbf': 'this._header._nbAnalogByFrame',
        'dataPtr': 'std::operator!=(this._data,?CXXNullPtrLiteralExpr)', 'nFrames': 'this._data._frames.size',
        'nSub0': 'this._data.frame(0)._analogs._subframe.size', 'nAnalogParams': 'this._parameters.group("ANALOG")._parameters.size',
    }
    base = {'FRAMES': 1, 'USED': 1, 'RATE': 100.0, 'AUSED': 1, 'ARATE': 100.0, 'hFrames': 1, 'hPoints': 1, 'hRate': 100.0, 'hAnalogs': 1, 'hAbf': 1,
            'dataPtr': True, 'nFrames': 0, 'nSub0': 0, 'nAnalogParams': 5}

    def run(env):
        model = {A[k]: v for k, v in env.items()}
        st = {'record_calls': True}
        events, end, undec = a7.walk(f, model, state=st)
        acts = []
        for fn_, nid, vals in [(f, a_, b_) for a_, b_ in st.get('calls', [])] + list(st.get('deep_calls', [])):
            n = fn_.nodes[nid]
            if n['k'] == 'CXXMemberCallExpr' and n['callee'].get('classq') == 'ezc3d::Header' and not n['callee'].get('const') and n['callee']['nparams'] == 1:
                acts.append((n['callee']['name'], vals[0] if vals else None))
        return acts, end, undec
    rows = []
    # (row name, varying atoms, expectation(env) -> list of required (setter, value))
    U64 = (1 << 64)
    rows.append(('frame range <- POINT:FRAMES', {'FRAMES': [0, 1, 2, 3], 'hFrames': [0, 1, 2, 3]},
                 lambda e: [('firstFrame', 0), ('lastFrame', (e['FRAMES'] - 1) % U64)] if e['FRAMES'] != e['hFrames'] else []))
    rows.append(('point count <- POINT:USED', {'USED': [0, 1, 2], 'hPoints': [0, 1, 2]},
                 lambda e: [('nb3dPoints', e['USED'])] if e['USED'] != e['hPoints'] else []))
    rows.append(('frame rate <- POINT:RATE', {'RATE': [0.0, 0.5, 50.0, 59.94, 60.0, 100.0], 'hRate': [0.0, 0.5, 50.0, 59.94, 60.0, 100.0]},       # incl. changes of less than 1 Hz
                 lambda e: [('frameRate', e['RATE'])] if e['RATE'] != e['hRate'] else []))
    rows.append(('channel count <- ANALOG:USED', {'AUSED': [0, 1, 2], 'hAnalogs': [0, 1, 2], 'nAnalogParams': [0, 5]},
                 lambda e: ([('nbAnalogs', e['AUSED'])] if e['AUSED'] != e['hAnalogs'] else []) if e['nAnalogParams'] else [('nbAnalogs', 0)]))
    rows.append(('sub-frames <- stored data', {'nFrames': [1, 2], 'nSub0': [1, 2, 3], 'hAbf': [0, 1, 2, 3]},
                 lambda e: [('nbAnalogByFrame', e['nSub0'])] if e['nSub0'] != e['hAbf'] else []))
    rows.append(('sub-frames <- rate ratio (no data)', {'nFrames': [0], 'RATE': [0.0, 12.5, 50.0, 100.0], 'ARATE': [0.0, 100.0, 200.0, 1250.0], 'hAbf': [0, 1, 2, 4], 'hRate': [0.0, 12.5, 50.0, 100.0]},
                 lambda e: ([('nbAnalogByFrame', 1)] if e['hAbf'] != 1 else []) if int(e['RATE']) == 0 else
                 ([('nbAnalogByFrame', int(e['ARATE'] / e['RATE']))] if int(e['ARATE'] / e['RATE']) != e['hAbf'] else [])))
    total = 0
    for name, var, expect in rows:
        keys = list(var)
        bad = None
        und_row = None
        n = 0
        for vals in itertools.product(*[var[k] for k in keys]):
            env = dict(base)
            env.update(dict(zip(keys, vals)))
            # keep unrelated rows quiet: the current header value equals its source
            if 'RATE' in keys and 'hRate' not in keys:
                env['hRate'] = env['RATE']
            acts, end, undec = run(env)
            n += 1
            if end.startswith('undecided') or end == 'loop':
                und_row = 'with %s the walk of the updater stops at a construct the rule cannot evaluate (%s)' % ({k: env[k] for k in keys}, end)
                break
            if end != 'NEXIT':
                bad = 'with %s the updater ends in %s' % ({k: env[k] for k in keys}, end)
                break
            need = expect(env)
            for s, v in need:
                if (s, v) not in acts:
                    bad = 'with %s the header setter %s(%s) is not called (calls: %s)' % ({k: env[k] for k in keys}, s, v, acts)
                    break
            if bad:
                break
            # setters of this row called with any other value are wrong as well
            mine = {s for s, _ in need} | ({'firstFrame', 'lastFrame'} if 'FRAMES' in keys else set())
            for s, v in acts:
                if s in mine and (s, v) not in need:
                    bad = 'with %s the header setter %s is called with %s' % ({k: env[k] for k in keys}, s, v)
        total += n
        if und_row and not bad:
            res.undecided(rule, name, f.loc(), und_row + ' [shape not read by the rule]', function=f.sig, expr=name)
        elif bad:
            res.viol(rule, name, f.loc(), bad, function=f.sig, expr=name)
        else:
            res.ok(rule, name, f.loc(), 'setter called with the source value on every one of %d model rows where source and header differ' % n, function=f.sig, expr=name)
    res.info['sync_table_rows'] = total
    res.minimum('sync-table rows walked', total, 150)


def param_sync_rule(prog, res):
    """updateParameters regenerates POINT:FRAMES / USED and the label-like lists with one entry per
    point / channel.  Read over updateParameters and the non-public members / file-local helpers it
    delegates to; locals are identified by their role (what is handed to set()), not by their name."""
    f0 = prog.fn(UPD[1], nparams=2)
    fam = [f0]
    for u in prog.reachable_from([f0]):
        h = prog.funcs.get(u)
        if h is not None and h is not f0 and h.body is not None and h.qname not in UPD and \
                ((h.cls == f0.cls and h.rec.get('access') in ('private', 'protected')) or h.rec.get('internal') or '(anonymous namespace)' in h.qname):
            fam.append(h)
    sets = {}
    unresolved = []
    for f in fam:
        R = Renderer(f)
        for n in f.calls():
            if n['callee']['qname'].endswith('Parameter::set') and f.call_obj(n) is not None:
                o = R.render(f.call_obj(n))
                m = re.match(r'^this\._parameters\.group\("(\w+)"\)\.parameter\("(\w+)"\)$', o)
                if m:
                    sets.setdefault((m.group(1), m.group(2)), []).append((n, R.render(n['args'][0]), f))
                else:
                    unresolved.append(o)
    want = [('POINT', 'FRAMES'), ('POINT', 'USED'), ('POINT', 'LABELS'), ('POINT', 'DESCRIPTIONS'), ('POINT', 'UNITS'),
            ('ANALOG', 'USED'), ('ANALOG', 'LABELS'), ('ANALOG', 'DESCRIPTIONS'), ('ANALOG', 'SCALE'), ('ANALOG', 'OFFSET'), ('ANALOG', 'UNITS')]
    for key in want:
        inst = '%s:%s regenerated' % key
        if key in sets:
            res.ok('param-sync', inst, sets[key][0][2].loc(sets[key][0][0]['id']), 'set(%s)' % sets[key][0][1], function=f0.sig, expr=inst, nontrivial=False)
        elif unresolved:
            res.undecided('param-sync', inst, f0.loc(), 'no store to %s:%s found by name; the updater stores to parameters the rule cannot identify (%s) [shape not read by the rule]' %
                          (key[0], key[1], unresolved[0][:80]), function=f0.sig, expr=inst)
        else:
            res.viol('param-sync', inst, f0.loc(), 'updateParameters never stores %s:%s' % key, function=f0.sig, expr=inst)
    # counts: FRAMES <- number of stored frames
    fr = sets.get(('POINT', 'FRAMES'))
    if fr:
        src = fr[0][1]
        fsrc = fr[0][2]
        ok = src == 'this._data._frames.size'
        if not ok and src.startswith('local:'):
            Rf = Renderer(fsrc)
            defs = [Rf.render(d['init']) for n in fsrc.all_nodes({'DeclStmt'}) for d in n['decls'] if 'local:' + d['name'] == src and 'init' in d]
            ok = defs == ['this._data._frames.size']
        if ok:
            res.ok('param-sync', 'POINT:FRAMES <- number of stored frames', fsrc.loc(fr[0][0]['id']), function=f0.sig, expr='frames-src')
        elif src.startswith('local:') or src.startswith('this.'):
            res.viol('param-sync', 'POINT:FRAMES <- number of stored frames', fsrc.loc(fr[0][0]['id']), 'FRAMES is set from %s' % src, function=f0.sig, expr='frames-src')
        else:
            res.undecided('param-sync', 'POINT:FRAMES <- number of stored frames', fsrc.loc(fr[0][0]['id']), 'FRAMES is set from %s [shape not read by the rule]' % src, function=f0.sig, expr='frames-src')
    # a `set` that is skipped when the value is unchanged must compare with the parameter it sets: `if (n != P(G, X)) P(G, X).set(n)`
    import indexsites as _ISx
    for f in fam:
        R = Renderer(f)
        for c in f.calls():
            if c['callee']['name'] != 'set' or not c['callee']['qname'].endswith('Parameter::set') or f.call_obj(c) is None:
                continue
            o = R.render(f.call_obj(c))
            mset = re.match(r'^this\._parameters\.group\("(\w+)"\)\.parameter\("(\w+)"\)$', o)
            if not mset:
                continue
            key = mset.group(2)
            for a_ in f.ancestors(c['id']):
                an = f.nodes[a_]
                if an['k'] != 'IfStmt' or 'else' in an or c['id'] not in f.descendants(an['then']):
                    continue
                cn = f.nodes[f.strip(an['cond'], 'all')]
                if cn['k'] != 'BinaryOperator' or cn['op'] != '!=':
                    break
                sides = [R.render(x) for x in cn['ch']]
                val = R.render(f.call_args(c)[0])
                unc = lambda x_: re.sub(r'^\((?:unsigned |signed )?\w[\w ]*\)(?=[\w(])', '', x_)
                mine = [s_ for s_ in sides if unc(s_) == unc(val)]
                other = [s_ for s_ in sides if unc(s_) != unc(val)]
                if len(mine) == 1 and len(other) == 1:
                    mo = re.search(r'parameter\("(\w+)"\)\.valuesAs', other[0])
                    if mo and mo.group(1) != key:
                        res.viol('param-sync', 'update of %s is skipped when unchanged' % key, f.loc(an['id']), '%s is (re)written only when the new value differs from %s: the test compares with another parameter, so a stale %s survives whenever '
                                 'the new value happens to equal %s' % (key, mo.group(1), key, mo.group(1)), function=f0.sig, expr='skip-guard:' + key)
                    elif mo:
                        res.ok('param-sync', 'update of %s is skipped when unchanged' % key, f.loc(an['id']), 'compared with the parameter that is set', function=f0.sig, expr='skip-guard:%s@%d' % (key, an['id']), nontrivial=False)
                break
    # the count locals (whatever they are called): assignments under data().nbFrames() > 0
    roles = {}
    for key, role in ((('POINT', 'USED'), 'points'), (('ANALOG', 'USED'), 'analogs')):
        if key in sets and sets[key][0][1].startswith('local:'):
            roles[role] = (sets[key][0][1], sets[key][0][2])
    wantp = {'this._data.frame(0)._points._points.size', '(%s.valuesAsString().size + arg0.size)' % P('POINT', 'LABELS')}
    wanta = {'this._data.frame(0)._analogs.subframe(0)._channels.size', '0', '(unsigned long)0', '(%s.valuesAsString().size + arg1.size)' % P('ANALOG', 'LABELS')}
    for role, wantset, inst, okd in (('points', wantp, 'POINT:USED source', 'points of the first stored frame, else declared labels + new names'),
                                     ('analogs', wanta, 'ANALOG:USED source', 'channels of the first sub-frame of the first stored frame (0 without sub-frames), else declared labels + new names')):
        if role not in roles:
            res.undecided('param-sync', inst, f0.loc(), 'the value stored to USED is not a local the rule can follow [shape not read by the rule]', function=f0.sig, expr=('used-src' if role == 'points' else 'aused-src'))
            continue
        lname, fh = roles[role]
        Rh = Renderer(fh)
        got = set()
        for n in fh.all_nodes({'BinaryOperator'}):
            if n['op'] == '=' and Rh.render(n['ch'][0]) == lname:
                got.add(Rh.render(n['ch'][1]))
        for n in fh.all_nodes({'DeclStmt'}):
            for d in n['decls']:
                if 'local:' + d['name'] == lname and 'init' in d:
                    got.add(Rh.render(d['init']))
        # helper parameters stand for what the caller passes
        got = {re.sub(r'\barg(\d)\b', lambda m_: 'arg' + m_.group(1), g_) for g_ in got}
        expr_ = 'used-src' if role == 'points' else 'aused-src'
        good = (got == wantset) if role == 'points' else (got <= wantset and len(got) >= 3)
        if fh is not f0:
            # parameter positions differ inside a helper: compare modulo the argument index
            norm = lambda x: re.sub(r'arg\d\.size', 'argN.size', x)
            good = ({norm(x) for x in got} == {norm(x) for x in wantset}) if role == 'points' else ({norm(x) for x in got} <= {norm(x) for x in wantset} and len(got) >= 3)
        # the declared-labels source is for the empty data set only: once a frame is stored the data is the ground truth
        weak = None
        if good:
            import indexsites as _IS
            FRS = 'this._data._frames.size'
            for n in fh.all_nodes({'BinaryOperator'}):
                if n['op'] == '=' and Rh.render(n['ch'][0]) == lname and 'valuesAsString().size' in Rh.render(n['ch'][1]):
                    fa = [(op_, r_) for l_, op_, r_, _x in _IS.facts_at(fh, Rh, n['id']) if l_ == FRS]
                    if fa and not any(x_ in (('==', '0'), ('<=', '0'), ('<', '1')) for x_ in fa):
                        weak = (n['id'], ' and '.join('%s %s' % x_ for x_ in fa))
        if good and weak:
            res.viol('param-sync', inst, fh.loc(weak[0]), 'the %s count is taken from the declared labels whenever frames.size %s: with a stored frame the data, not the label list, is the ground truth' % (role[:-1], weak[1]),
                     function=f0.sig, expr=expr_)
        elif good:
            res.ok('param-sync', inst, fh.loc(), okd, function=f0.sig, expr=expr_)
        elif got and all((g_.startswith('this.') or g_.startswith('(') or g_ in ('0', '(unsigned long)0')) and '?' not in g_ and '&(' not in g_ and 'local:' not in g_ for g_ in got):
            res.viol('param-sync', inst, fh.loc(), '%s count is computed from %s' % (role[:-1], sorted(got)), function=f0.sig, expr=expr_)
        else:
            res.undecided('param-sync', inst, fh.loc(), '%s count is computed from %s [shape not read by the rule]' % (role[:-1], sorted(got)), function=f0.sig, expr=expr_)
    # one entry per point / channel: every list that is stored is filled by exactly one push_back per
    # iteration of a normal-form loop over [0, count) (labels...) or [current size, count) (scale/offset/units)
    counts = {v[0] for v in roles.values()}
    for f in fam:
        R = Renderer(f)
        for n in f.calls():
            if n['callee']['name'] == 'push_back' and f.call_obj(n) is not None:
                o = R.render(f.call_obj(n))
                if not o.startswith('local:'):
                    continue
                if o not in {a_[1] for v_ in sets.values() for a_ in v_ if a_[2] is f}:
                    continue      # only lists that are stored with set()
                fs = enclosing_fors(f, n['id'])
                lf = normal_for(f, fs[0]) if fs else None
                inst = 'list %s has one entry per element' % o[6:]
                if lf is not None and lf['op'] == '<' and R.render(lf['bound']) in counts:
                    res.ok('param-sync', inst, f.loc(n['id']), 'one push_back per index below %s' % R.render(lf['bound']), function=f0.sig, expr='%s@%d' % (inst, n['id']), nontrivial=False)
                elif lf is not None and lf['op'] == '<' and counts and re.match(r'^\(?local:\w+ [-+] 1\)?$', R.render(lf['bound'])):
                    res.viol('param-sync', inst, f.loc(n['id']), 'entries are appended for indices below %s, not below the count' % R.render(lf['bound']), function=f0.sig, expr=inst + '@%s' % o)
                else:
                    res.undecided('param-sync', inst, f.loc(n['id']), 'entries are not appended once per index below the count in a loop the rule reads (bound %s) [shape not read by the rule]' %
                                  (R.render(lf['bound']) if lf else 'none'), function=f0.sig, expr=inst + '@%s' % o)


def who_may_mutate_rule(prog, res):
    c3d = prog.classes.get('ezc3d::c3d')
    for fl in c3d['fields']:
        if fl['name'] in ('_header', '_parameters', '_data'):
            if fl['access'] == 'public':
                res.viol('who-may-mutate', 'c3d::' + fl['name'], 'include/ezc3d.h:%d' % fl['line'], 'section handle is public: callers can modify a section without the updaters', function='', expr=fl['name'])
            else:
                res.ok('who-may-mutate', 'c3d::' + fl['name'], 'include/ezc3d.h:%d' % fl['line'], 'non-public handle', function='', expr=fl['name'], nontrivial=False)
    # public accessors of c3d return const references / values
    n = 0
    for q in ('ezc3d::c3d', 'ezc3d::DataNS::Data', 'ezc3d::ParametersNS::Parameters', 'ezc3d::ParametersNS::GroupNS::Group', 'ezc3d::Header',
              'ezc3d::DataNS::Frame', 'ezc3d::DataNS::Points3dNS::Points', 'ezc3d::DataNS::AnalogsNS::Analogs', 'ezc3d::DataNS::AnalogsNS::SubFrame'):
        c = prog.classes.get(q)
        if not c:
            raise AnalysisBroken('class %s vanished' % q)
        for m in c['methods']:
            if m['access'] != 'public' or m['implicit'] or m['kind'] != 'method':
                continue
            n += 1
            r = m['ret']
            mutable_ref = (r.endswith('&') or r.endswith('*')) and not r.startswith('const ') and 'ezc3d::' in r
            if not mutable_ref or m.get('deleted'):
                continue
            where = '%s:%d' % (m['file'].replace(prog.repo + '/', ''), m['line'])
            if q == 'ezc3d::c3d':
                res.viol('who-may-mutate', m['qname'], where, 'public c3d method returns a mutable reference (%s): callers can modify a section without the updaters' % r, function=m['qname'], expr='ret')
            elif m['const']:
                if q == 'ezc3d::DataNS::Frame' and m['name'] in ('points_nonConst', 'analogs_nonConst'):
                    res.ok('who-may-mutate', m['qname'], where, 'documented const-bypass accessor: outside the property\'s histories (assumption)', function=m['qname'], expr='bypass', nontrivial=False)
                else:
                    res.viol('who-may-mutate', m['qname'], where, 'const method returns a mutable reference (%s): reachable from c3d\'s const accessors' % r, function=m['qname'], expr='ret')
    res.ok('who-may-mutate', 'const accessor chain screened', 'include/', '%d public methods' % n, function='', expr='screen')
    sp = c3d['special']
    copy_ops_ = [m for m in c3d['methods'] if not m.get('implicit') and ((m.get('kind') == 'ctor' and m.get('copy')) or m.get('name') == 'operator=')]
    if copy_ops_ and all(m.get('deleted') for m in copy_ops_):
        pass      # explicitly deleted: not copyable
    elif sp['user_copy_ctor'] or sp['user_copy_assign'] or not any(b.startswith('std::basic_fstream') for b in c3d['bases']):
        res.viol('who-may-mutate', 'c3d copyable', 'include/ezc3d.h:%d' % c3d['line'], 'two c3d objects could share section handles', function='', expr='copy')


def setter_order_rule(prog, res, rule):
    """nbAnalogs(n) stores n x (current sub-frames) and nbAnalogByFrame(k) keeps measurements / (old sub-frames): an updater that sets the
    channel count first and the sub-frame count afterwards loses the channel count whenever the old sub-frame count is 0 (n x 0, then 0 x k)"""
    H = 'ezc3d::Header'
    roots = [f for f in prog.repo_funcs() if f.qname == 'ezc3d::c3d::updateHeader']
    fam = [prog.funcs[u] for u in sorted(prog.reachable_from(roots)) if u in prog.funcs and not prog.funcs[u].implicit and prog.funcs[u].body is not None and
           (prog.funcs[u].cls == 'ezc3d::c3d' or prog.funcs[u].rec.get('internal') or '(anonymous namespace)' in prog.funcs[u].qname)]
    n = 0
    # the premise, on this tree: with 0 sub-frames nbAnalogs(3) stores 0 measurements, and nbAnalogByFrame(2) then keeps 0
    premise = True
    try:
        for fn_, arg_ in ((prog.fn(H + '::nbAnalogs', nparams=1), 3), (prog.fn(H + '::nbAnalogByFrame', nparams=1), 2)):
            st_ = {'fields': True}
            _e, end_, _u = a7.walk(fn_, {'this._nbAnalogsMeasurement': 0, 'this._nbAnalogByFrame': 0, 'arg0': arg_}, follow_loops=True, max_steps=500, state=st_)
            if end_ != 'NEXIT' or st_['model'].get('this._nbAnalogsMeasurement') != 0:
                premise = False
    except Exception:
        premise = False
    for f in fam:
        g = f.events()
        A = [g.vertex_of.get(c['id']) for c in f.calls() if c['callee']['qname'] == H + '::nbAnalogs' and c['callee'].get('nparams') == 1]
        B = [(g.vertex_of.get(c['id']), c) for c in f.calls() if c['callee']['qname'] == H + '::nbAnalogByFrame' and c['callee'].get('nparams') == 1]
        A = [a for a in A if a is not None]
        for b, c in B:
            if b is None:
                continue
            n += 1
            before = [a for a in A if b in g.reach([a]) and a != b]
            if before and g.NEXIT in g.reach([b], avoid=set(A)) and not premise:
                res.undecided(rule, 'updateHeader: sub-frame count before channel count', f.loc(c['id']), 'the channel count is set before the sub-frame count, and what the two setters store cannot be evaluated on this tree '
                              '[shape not read by the rule]', function=f.sig, expr='setter-order')
            elif before and g.NEXIT in g.reach([b], avoid=set(A)):
                res.viol(rule, 'updateHeader: sub-frame count before channel count', f.loc(c['id']),
                         'the header\'s channel count is set (%s) before the sub-frame count (here) and not again afterwards: nbAnalogs(n) stores n x the current sub-frame count, so when that count is still 0 '
                         'the rescaling sub-frame setter keeps 0 channels' % f.loc(g.node_of(before[0])), function=f.sig, expr='setter-order', sure=True)
            else:
                res.ok(rule, 'updateHeader: sub-frame count before channel count', f.loc(c['id']), 'no channel-count setter precedes the sub-frame setter without a later one', function=f.sig, expr='setter-order@%d' % c['id'])
    return n


def derived_rule(prog, res, rule='derived'):
    H = 'ezc3d::Header'
    E = FX.get(prog)
    setter_order_rule(prog, res, rule)
    getter = prog.fn(H + '::nbAnalogs', nparams=0)
    setter = prog.fn(H + '::nbAnalogs', nparams=1)
    sub = prog.fn(H + '::nbAnalogByFrame', nparams=1)
    # getter: 0 if sub-frame count is 0 else measurement / sub-frames  (finite model)
    badg = None
    for m, k in itertools.product((0, 1, 2, 4, 6), (0, 1, 2, 3)):
        events, end, _ = a7.walk(getter, {'this._nbAnalogsMeasurement': m, 'this._nbAnalogByFrame': k})
        ev = a7.Evaluator(getter, {'this._nbAnalogsMeasurement': m, 'this._nbAnalogByFrame': k})
        ret = [ev.ev(getter.nodes[x]['ch'][0]) for x in events if getter.nodes[x]['k'] == 'ReturnStmt']
        want = 0 if k == 0 else m // k
        if end != 'NEXIT' or ret[-1:] != [want]:
            badg = 'measurement=%d sub-frames=%d: returns %s, expected %d' % (m, k, ret[-1:], want)
            break
    if badg:
        res.viol(rule, 'Header::nbAnalogs() = measurements / sub-frames (0 when there are none)', getter.loc(), badg, function=getter.sig, expr='getter')
    else:
        res.ok(rule, 'Header::nbAnalogs() = measurements / sub-frames (0 when there are none)', getter.loc(), '20 model rows, division guarded by the zero test', function=getter.sig, expr='getter')
    R = Renderer(setter)

    def final_state(fn, m, k, arg):
        """(measurements, sub-frames) after fn(arg) on a header with m measurements per frame and k sub-frames; None when the walk cannot be evaluated"""
        st = {'fields': True}
        try:
            _ev, end, _u = a7.walk(fn, {'this._nbAnalogsMeasurement': m, 'this._nbAnalogByFrame': k, 'arg0': arg}, follow_loops=True, max_steps=500, state=st)
        except a7.OutOfRange:
            return None
        if end != 'NEXIT':
            return None
        fm = st['model']
        out = (fm.get('this._nbAnalogsMeasurement'), fm.get('this._nbAnalogByFrame'))
        return out if all(isinstance(x, int) and not isinstance(x, bool) for x in out) else None
    rows = [(m, k, a) for k in (0, 1, 2, 3) for c in (0, 1, 2, 5) for m in [c * k] for a in (0, 1, 3, 4)]
    sem = []
    for m, k, a in rows:
        fs = final_state(setter, m, k, a)
        sem.append((m, k, a, fs, (a * k, k)))
    asg = [(R.render(n['ch'][0]), R.render(n['ch'][1])) for n in setter.all_nodes({'BinaryOperator'}) if n['op'] == '=']
    if all(fs is not None for _m, _k, _a, fs, _w in sem):
        wrong = [x for x in sem if x[3] != x[4]]
        if wrong:
            m, k, a, fs, w = wrong[0]
            res.viol(rule, 'Header::nbAnalogs(n): measurements = n x sub-frames', setter.loc(), 'with %d measurements per frame and %d sub-frame(s), nbAnalogs(%d) leaves (measurements, sub-frames) = %s; expected %s' % (m, k, a, fs, w),
                     function=setter.sig, expr='setter', sure=True)
        else:
            res.ok(rule, 'Header::nbAnalogs(n): measurements = n x sub-frames', setter.loc(), 'final state on %d model rows' % len(sem), function=setter.sig, expr='setter')
    elif asg == [('this._nbAnalogsMeasurement', '(arg0 * this._nbAnalogByFrame)')] or asg == [('this._nbAnalogsMeasurement', '(this._nbAnalogByFrame * arg0)')]:
        res.ok(rule, 'Header::nbAnalogs(n): measurements = n x sub-frames', setter.loc(), function=setter.sig, expr='setter')
    elif any(c_['callee'].get('inrepo') for c_ in setter.calls()):
        res.undecided(rule, 'Header::nbAnalogs(n): measurements = n x sub-frames', setter.loc(), 'the setter works through calls whose outcome cannot be evaluated on the models [shape not read by the rule]', function=setter.sig, expr='setter')
    else:
        res.viol(rule, 'Header::nbAnalogs(n): measurements = n x sub-frames', setter.loc(), 'setter does %s' % asg, function=setter.sig, expr='setter')
    # the sub-frame setter, on the same models: the channel count (measurements / sub-frames, 0 when there are none) is kept
    sem2 = []
    for m, k, a in rows:
        ch_old = 0 if k == 0 else m // k
        sem2.append((m, k, a, final_state(sub, m, k, a), (ch_old * a, a)))
    if all(fs is not None for _m, _k, _a, fs, _w in sem2):
        wrong = [x for x in sem2 if x[3] != x[4]]
        nm = 'Header::nbAnalogByFrame(n) keeps the channel count (rescales the measurements per frame)'
        if wrong:
            m, k, a, fs, w = wrong[0]
            res.viol(rule, nm, sub.loc(), 'with %d measurements per frame and %d sub-frame(s), nbAnalogByFrame(%d) leaves (measurements, sub-frames) = %s; expected %s (the channel count is kept)' % (m, k, a, fs, w),
                     function=sub.sig, expr='subframe-setter', sure=True)
        else:
            res.ok(rule, nm, sub.loc(), 'final state on %d model rows: channel count kept, measurements rescaled' % len(sem2), function=sub.sig, expr='subframe-setter')
        return
    # sub-frame setter rescales: reads the channel count before the store, stores, then re-applies the count
    g = sub.events()
    R = Renderer(sub)
    store = [n for n in sub.all_nodes({'BinaryOperator'}) if n['op'] == '=' and R.render(n['ch'][0]) == 'this._nbAnalogByFrame' and R.render(n['ch'][1]) == 'arg0']
    reads = [n for n in sub.calls() if n['callee']['usr'] == getter.usr]
    writes = [n for n in sub.calls() if n['callee']['usr'] == setter.usr]
    direct = [n for n in sub.all_nodes({'BinaryOperator'}) if n['op'] == '=' and R.render(n['ch'][0]) == 'this._nbAnalogsMeasurement']
    GETTER_FORMS = ('((this._nbAnalogByFrame != 0) ? (this._nbAnalogsMeasurement / this._nbAnalogByFrame) : 0)',
                    '((this._nbAnalogByFrame == 0) ? 0 : (this._nbAnalogsMeasurement / this._nbAnalogByFrame))',
                    '((this._nbAnalogByFrame > 0) ? (this._nbAnalogsMeasurement / this._nbAnalogByFrame) : 0)')
    from paths import local_init as _li
    # a local initialised (before the store) with the getter's value, spelled as a call or inline
    saved_locals = {}
    for dn in sub.all_nodes({'DeclStmt'}):
        for d in dn['decls']:
            if 'init' in d:
                txt = re.sub(r'\(unsigned long\)', '', R.render(d['init']))
                is_get = any(r_['id'] in sub.descendants(d['init']) for r_ in reads) and sub.nodes[sub.strip(d['init'], 'all')]['id'] in [r_['id'] for r_ in reads]
                if is_get or txt in GETTER_FORMS:
                    saved_locals[d['id']] = dn['id']
    if len(store) == 1 and not reads and saved_locals and len(direct) == 1:
        sv = g.vertex_of.get(store[0]['id'])
        wv = g.vertex_of.get(direct[0]['id'])
        rhs = sub.nodes[sub.strip(direct[0]['ch'][1], 'all')]
        good = False
        if rhs['k'] == 'BinaryOperator' and rhs['op'] == '*':
            sides = [sub.nodes[sub.strip(c, 'all')] for c in rhs['ch']]
            rr = [R.render(c) for c in rhs['ch']]
            for a_, other in ((sides[0], rr[1]), (sides[1], rr[0])):
                if a_['k'] == 'DeclRefExpr' and a_['decl'].get('id') in saved_locals and other in ('this._nbAnalogByFrame', 'arg0'):
                    dv = g.vertex_of.get(saved_locals[a_['decl']['id']])
                    good = None not in (sv, wv, dv) and g.dominates(dv, sv) and g.dominates(sv, wv) and g.NEXIT not in g.reach([sv], avoid={wv})
        if good:
            res.ok(rule, 'Header::nbAnalogByFrame(n) keeps the channel count (rescales the measurements per frame)', sub.loc(),
                   'channel count computed before the store (inline) and multiplied by the new sub-frame count after it', function=sub.sig, expr='subframe-setter')
            return
    # the measurements are rescaled first (old channel count x new sub-frame count), then the sub-frame count is stored
    if len(store) == 1 and len(direct) == 1 and not writes:
        rhs_ = re.sub(r'\(unsigned long\)', '', R.render(direct[0]['ch'][1]))
        forms = ['(this.nbAnalogs() * arg0)', '(arg0 * this.nbAnalogs())'] + ['(%s * arg0)' % g_ for g_ in GETTER_FORMS] + ['(arg0 * %s)' % g_ for g_ in GETTER_FORMS]
        sv = g.vertex_of.get(store[0]['id'])
        wv = g.vertex_of.get(direct[0]['id'])
        if rhs_ in forms and None not in (sv, wv) and g.dominates(wv, sv) and wv not in g.reach([sv]):
            res.ok(rule, 'Header::nbAnalogByFrame(n) keeps the channel count (rescales the measurements per frame)', sub.loc(),
                   'measurements := (channel count under the old sub-frame count) x n, then the sub-frame count is stored', function=sub.sig, expr='subframe-setter')
            return
    ok = len(store) == 1 and len(reads) >= 1 and (len(writes) == 1 or len(direct) == 1)
    if ok and not writes:
        # the setter inlined:  _nbAnalogsMeasurement = saved * _nbAnalogByFrame  after the store
        sv = g.vertex_of.get(store[0]['id'])
        rv = g.vertex_of.get(reads[0]['id'])
        wv = g.vertex_of.get(direct[0]['id'])
        rhs = sub.nodes[sub.strip(direct[0]['ch'][1], 'all')]
        init_ok = False
        if rhs['k'] == 'BinaryOperator' and rhs['op'] == '*':
            sides = [sub.nodes[sub.strip(c, 'all')] for c in rhs['ch']]
            rr = [R.render(c) for c in rhs['ch']]
            from paths import local_init
            for a_, other in ((sides[0], rr[1]), (sides[1], rr[0])):
                if a_['k'] == 'DeclRefExpr' and a_['decl'].get('dk') == 'local' and other == 'this._nbAnalogByFrame':
                    init = local_init(sub, a_['decl']['id'])
                    init_ok = init is not None and reads[0]['id'] in sub.descendants(init)
        ok = None not in (sv, rv, wv) and g.dominates(rv, sv) and g.dominates(sv, wv) and g.NEXIT not in g.reach([sv], avoid={wv}) and init_ok
    elif ok:
        sv = g.vertex_of.get(store[0]['id'])
        rv = g.vertex_of.get(reads[0]['id'])
        wv = g.vertex_of.get(writes[0]['id'])
        arg = sub.nodes[sub.strip(writes[0]['args'][0], 'all')]
        saved = arg['k'] == 'DeclRefExpr' and arg['decl'].get('dk') == 'local'
        init_ok = False
        if saved:
            from paths import local_init
            init = local_init(sub, arg['decl']['id'])
            init_ok = init is not None and reads[0]['id'] in sub.descendants(init)
        ok = None not in (sv, rv, wv) and g.dominates(rv, sv) and g.dominates(sv, wv) and g.NEXIT not in g.reach([sv], avoid={wv}) and init_ok
    if ok:
        res.ok(rule, 'Header::nbAnalogByFrame(n) keeps the channel count (rescales the measurements per frame)', sub.loc(), 'count read before the store and re-applied after it',
               function=sub.sig, expr='subframe-setter')
    elif len(store) == 1 and (writes or direct):
        # something re-computes the measurements after the store, in a form the rule does not read
        res.undecided(rule, 'Header::nbAnalogByFrame(n) keeps the channel count (rescales the measurements per frame)', sub.loc(),
                      'the measurements per frame are re-computed in a form the rule does not read (expected: channel count saved before the store, times the new sub-frame count after it)',
                      function=sub.sig, expr='subframe-setter')
    else:
        res.viol(rule, 'Header::nbAnalogByFrame(n) keeps the channel count (rescales the measurements per frame)', sub.loc(),
                 'changing the sub-frame count must rescale the analog measurements per frame (channels x sub-frames): read nbAnalogs() before the store, store, then nbAnalogs(saved)',
                 function=sub.sig, expr='subframe-setter')


def run(prog, tier):
    res = Result('C05', tier,
                 'Path rule (must-pass-through) on every public mutator: after the last effect on parameters/data every normal path passes an updater; '
                 'updateHeader walked on finite models (A7) must call each header setter with its source parameter whenever they differ (sync table, '
                 '6 rows incl. both sub-frame cases); updateParameters regenerates FRAMES/USED and every label-like list with one entry per element; '
                 'section handles are non-public and no const accessor hands out a mutable reference (except the documented Frame bypass); the header\'s '
                 'channel-count getter / setter / sub-frame setter form a rescaling triple; the loading constructor reconciles before reading data.',
                 assumptions=['users of the documented const-bypass accessors are outside the property\'s histories'],
                 not_decided=['that the regenerated lists are right for every interleaving (values)', 'agreement at intermediate states inside a call'])
    updater_reach_rule(prog, res)
    CR.load_order_rule(prog, res)
    sync_table_rule(prog, res)
    param_sync_rule(prog, res)
    who_may_mutate_rule(prog, res)
    derived_rule(prog, res)
    # points in each frame = POINT:USED needs every frame to receive the same columns
    import p_c06
    p_c06.column_rules(prog, res, rule='column-uniform')
    # "points in each filled frame" is one number only while stored frames share nothing with each other or with the caller
    import p_c08
    p_c08.ownership_rules(prog, res, rule_prefix='frames-independent')
    # reload: every frame is filled with the header's point / channel / sub-frame counts
    CR.frame_reader_rule(prog, res, 'reload-shape')
    # the header fields are brought into agreement through the header's own setters
    import setters
    setters.rule(prog, res, {'ezc3d::Header'}, rule_name='header-setters', minimum=4)
    return res
