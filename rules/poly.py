"""A8 — integer expressions as multivariate polynomials over canonical access-path atoms.
poly = {monomial(tuple of sorted atoms): coeff}; () is the constant term."""
from paths import Renderer
from facts import CAST_KINDS


def const(c):
    return {(): c} if c else {}


def add(a, b, sb=1):
    out = dict(a)
    for m, c in b.items():
        out[m] = out.get(m, 0) + sb * c
        if out[m] == 0:
            del out[m]
    return out


def mul(a, b):
    out = {}
    for m1, c1 in a.items():
        for m2, c2 in b.items():
            m = tuple(sorted(m1 + m2))
            out[m] = out.get(m, 0) + c1 * c2
            if out[m] == 0:
                del out[m]
    return out


def poly(fn, i, R=None, depth=0):
    """polynomial of integer expression i (integral casts are looked through: callers that care
    about truncation check the cast separately)"""
    R = R or Renderer(fn)
    i = fn.strip(i)
    n = fn.nodes[i]
    k = n['k']
    if 'cv' in n and (k != 'DeclRefExpr' or n['decl'].get('dk') in ('enumconst', 'global')):
        return const(int(n['cv']))
    if k in CAST_KINDS and n.get('ck') in ('IntegralCast', 'NoOp', 'LValueToRValue'):
        # a cast to fewer than 32 bits changes the value of a length/count (opaque atom);
        # int/long/size_t conversions of sizes are looked through
        if n.get('ck') == 'IntegralCast' and 0 < (n.get('tw') or 64) < 32:
            inner = fn.nodes[fn.strip(n['ch'][0])]
            if 'cv' not in inner and (inner.get('tw') or 64) > (n.get('tw') or 64):
                return {('(%s)%s' % (n['t'], R.render(n['ch'][0])),): 1}
        return poly(fn, n['ch'][0], R, depth + 1)
    if k == 'BinaryOperator' and n['op'] in ('+', '-', '*'):
        a = poly(fn, n['ch'][0], R, depth + 1)
        b = poly(fn, n['ch'][1], R, depth + 1)
        if n['op'] == '+':
            return add(a, b)
        if n['op'] == '-':
            return add(a, b, -1)
        return mul(a, b)
    if k == 'UnaryOperator' and n['op'] == '-':
        return add({}, poly(fn, n['ch'][0], R, depth + 1), -1)
    if k == 'DeclRefExpr' and n['decl'].get('dk') == 'local':
        sd = R.single_def_locals()
        if n['decl']['id'] in sd and depth < 30:
            return poly(fn, sd[n['decl']['id']]['init'], R, depth + 1)
    return {(R.render(i),): 1}


def show(p):
    if not p:
        return '0'
    parts = []
    for m, c in sorted(p.items()):
        if m == ():
            parts.append(str(c))
        else:
            parts.append(('' if c == 1 else str(c) + '*') + '*'.join(m))
    return ' + '.join(parts)


def equal(a, b):
    return add(a, b, -1) == {}


def diff_const(a, b):
    """a - b if it is a constant, else None"""
    d = add(a, b, -1)
    if not d:
        return 0
    if list(d.keys()) == [()]:
        return d[()]
    return None
