"""A9 — index-site inventory.  Every subscript on a std::vector / std::string / raw buffer, every
front()/back()/pop_back() and every raw dereference in library code is a site.  A site must be
  guarded   by one of the closed list of idioms below (structural predicates over AST/CFG),
  justified by an entry of spec/invariants.json whose mechanical part still holds, or
  listed    as a known finding;
anything else is a violation naming the site and the missing guard.

Idioms: G1 loop bound / dominating comparison on the same container; G2 resize-before-assign;
G2b grow-by-one then back(); G3 emptiness/size comparison excluding the index; G4 buffer contract
(checked by the buffer-contract rule); G5 verified constant-size invariant; G6 index captured from
a G1 search under the sentinel test; G7 recursion scheme with checked entry calls; G8 offset index;
G9 re-read of an element already read on a dominating path; G10 non-empty by construction."""
import json
import os
import re
from facts import AnalysisBroken, VERIF, CAST_KINDS
from paths import Renderer, root_of, local_init
from loops import normal_for, enclosing_fors
import poly as P
import effects as FX
import codec_rules as CR

SIZE_MAX = '18446744073709551615'


def uncast(r):
    while True:
        y = re.sub(r'^\((?:unsigned |signed )?\w[\w ]*\)(?=[\w(])', '', r)
        if y == r:
            return r
        r = y


def atoms_of_cond(f, R, i, truth, out):
    """decompose condition i known to be `truth` into atomic comparisons (l, op, r)"""
    i = f.strip(i, 'all')
    n = f.nodes[i]
    k = n['k']
    if k == 'UnaryOperator' and n['op'] == '!':
        atoms_of_cond(f, R, n['ch'][0], not truth, out)
        return
    if k == 'BinaryOperator' and n['op'] == '&&':
        if truth:
            atoms_of_cond(f, R, n['ch'][0], True, out)
            atoms_of_cond(f, R, n['ch'][1], True, out)
        return
    if k == 'BinaryOperator' and n['op'] == '||':
        if not truth:
            atoms_of_cond(f, R, n['ch'][0], False, out)
            atoms_of_cond(f, R, n['ch'][1], False, out)
        return
    # the result of a reason-returning checker tested against null: a null result means none of its conditions held
    try:
        import validators as _V
        rc = None
        isnull = None
        if k == 'BinaryOperator' and n['op'] in ('==', '!='):
            for a_, b_ in ((n['ch'][0], n['ch'][1]), (n['ch'][1], n['ch'][0])):
                bn = f.nodes[f.strip(b_, 'all')]
                if bn['k'] in ('CXXNullPtrLiteralExpr', 'GNUNullExpr') or str(bn.get('cv')) == '0':
                    rc = _V.reason_call(f.prog, f, a_)
                    if rc:
                        isnull = (n['op'] == '==') == truth
                        break
        elif k in ('DeclRefExpr', 'CallExpr', 'CXXMemberCallExpr'):
            rc = _V.reason_call(f.prog, f, i)
            if rc:
                isnull = not truth
        if rc and isnull:
            from codec import substitute
            cn, cf, gs = rc
            Rc = Renderer(cf)
            sub = {'arg%d' % j: R.render(a_) for j, a_ in enumerate(f.call_args(cn))}
            if f.call_obj(cn) is not None:
                sub['this'] = R.render(f.call_obj(cn))
            sub = {k_: re.sub(r'^\*\((.*)\)$', r'\1', v_) for k_, v_ in sub.items()}
            for gc in gs:
                tmp = []
                atoms_of_cond(cf, Rc, gc, False, tmp)
                for l_, op_, r_, _n in tmp:
                    out.append((uncast(substitute(l_, sub)), op_, uncast(substitute(r_, sub)), n['id']))
            return
        if rc:
            return
    except ImportError:
        pass
    # count helper compared with zero:  H(v) > 0  (H returns 0 for an empty v)  =>  v is not empty
    if k == 'BinaryOperator' and n['op'] in ('>', '!=', '>=') and truth:
        try:
            import validators as _V2
            from paths import local_init as _li
            rn = f.nodes[f.strip(n['ch'][1], 'all')]
            ln = f.nodes[f.strip(n['ch'][0], 'all')]
            hops = 0
            while ln['k'] == 'DeclRefExpr' and ln['decl'].get('dk') == 'local' and hops < 2 and _li(f, ln['decl']['id']) is not None:
                ln = f.nodes[f.strip(_li(f, ln['decl']['id']), 'all')]
                hops += 1
            ok0 = (str(rn.get('cv')) == '0' and n['op'] in ('>', '!=')) or (n['op'] == '>=' and str(rn.get('cv')) not in ('None', '0') and str(rn.get('cv')).isdigit())
            if ok0 and ln['k'] == 'CallExpr' and ln.get('callee', {}).get('inrepo') and _V2.count_helper(f.prog, ln['callee']['usr']) is not None:
                out.append((uncast(R.render(f.call_args(ln)[0])) + '.size', '!=', '0', n['id']))
        except (ImportError, IndexError):
            pass
    if k == 'BinaryOperator' and n['op'] in ('<', '<=', '>', '>=', '==', '!='):
        op = n['op']
        if not truth:
            op = {'<': '>=', '<=': '>', '>': '<=', '>=': '<', '==': '!=', '!=': '=='}[op]
        out.append((uncast(R.render(n['ch'][0])), op, uncast(R.render(n['ch'][1])), n['id']))
        return
    if k == 'CXXMemberCallExpr' and n['callee']['name'] == 'empty' and n['callee'].get('classq', '').startswith('std::') and n.get('obj') is not None:
        out.append((uncast(R.render(n['obj'])) + '.size', '==' if truth else '!=', '0', n['id']))
        return
    # a bool local defined once from a condition stands for that condition
    if k == 'DeclRefExpr' and n['decl'].get('dk') == 'local' and n.get('tc') == 'b':
        from paths import local_init as _li2
        ini = _li2(f, n['decl']['id'])
        if ini is not None and n['decl']['id'] in R.single_def_locals():
            atoms_of_cond(f, R, ini, truth, out)
            return
    # bool(x) for an integer x: x != 0
    r = uncast(R.render(i))
    out.append((r, '!=' if truth else '==', '0', i))


def always_exits(f, i):
    n = f.nodes[f.strip(i, 'noop')]
    if n['k'] == 'CompoundStmt':
        return bool(n['ch']) and always_exits(f, n['ch'][-1])
    n2 = f.nodes[f.strip(n['id'], 'all')]
    return n2['k'] in ('CXXThrowExpr', 'ReturnStmt', 'BreakStmt', 'ContinueStmt')


def facts_at(f, R, nid):
    """atomic comparisons known to hold when node nid is evaluated"""
    out = []
    child = nid
    for p in f.ancestors(nid):
        pn = f.nodes[p]
        k = pn['k']
        if k == 'IfStmt':
            if child == pn['then'] or child in f.descendants(pn['then']):
                atoms_of_cond(f, R, pn['cond'], True, out)
            elif 'else' in pn and (child == pn['else'] or child in f.descendants(pn['else'])):
                atoms_of_cond(f, R, pn['cond'], False, out)
        elif k == 'BinaryOperator' and pn['op'] in ('&&', '||'):
            if child == pn['ch'][1] or child in f.descendants(pn['ch'][1]):
                atoms_of_cond(f, R, pn['ch'][0], pn['op'] == '&&', out)
        elif k == 'ConditionalOperator':
            if child == pn['lhs'] or child in f.descendants(pn['lhs']):
                atoms_of_cond(f, R, pn['cond'], True, out)
            elif child == pn['rhs'] or child in f.descendants(pn['rhs']):
                atoms_of_cond(f, R, pn['cond'], False, out)
        elif k == 'ForStmt':
            if child == pn['body'] or child in f.descendants(pn['body']):
                lf = normal_for(f, p)
                if lf is None:
                    from loops import descending_for
                    df = descending_for(f, p)
                    if df:
                        # for (i = START; i > 0; --i): 1 <= i <= START in the body
                        out.append(('local:' + df['name'], '>', '0', pn.get('cond', p)))
                        out.append(('local:' + df['name'], '<=', uncast(R.render(df['start'])), p))
                if lf:
                    out.append(('local:' + lf['name'], lf['op'], uncast(R.render(lf['bound'])), pn.get('cond', p)))
                    if lf['start_cv'] is not None:
                        out.append(('local:' + lf['name'], '>=', lf['start_cv'], p))
                    else:
                        out.append(('local:' + lf['name'], '>=', uncast(R.render(lf['start'])), p))
            elif 'cond' in pn and 'inc' in pn and (child == pn['cond'] or child in f.descendants(pn['cond'])):
                pass
        elif k == 'WhileStmt':
            if child == pn['body'] or child in f.descendants(pn['body']):
                atoms_of_cond(f, R, pn['cond'], True, out)
        elif k == 'CompoundStmt':
            # early-exit guards among the preceding siblings
            idx = None
            for j, c in enumerate(pn['ch']):
                if c == child or child in f.descendants(c):
                    idx = j
                    break
            if idx is not None:
                for c in pn['ch'][:idx]:
                    cn = f.nodes[c]
                    if cn['k'] == 'IfStmt' and 'else' not in cn and always_exits(f, cn['then']):
                        atoms_of_cond(f, R, cn['cond'], False, out)
        child = p
    # validator helpers called on a path that dominates nid: their conditions are false afterwards
    try:
        import validators
        vgs = validators.virtual_guards(f.prog, f, R)
    except Exception:
        vgs = []
    if vgs:
        g = f.events()
        uv = g.vertex_of.get(nid)
        for vg in vgs:
            cv = g.vertex_of.get(vg['call'])
            if cv is not None and uv is not None and cv != uv and g.dominates(cv, uv) and vg['call'] not in f.descendants(nid):
                out.extend(validators.after_return_atoms(f.prog, vg, uncast))
    return out


def lt_proved(facts, idx, size):
    """idx < size follows from one atomic fact"""
    for l, op, r, _ in facts:
        if l == idx and r == size and op == '<':
            return True
        if l == size and r == idx and op == '>':
            return True
    return False


def nonempty_proved(facts, size, need=1):
    """size >= need"""
    for l, op, r, _ in facts:
        if l == size:
            if op == '>' and re.match(r'^\d+$', r) and int(r) + 1 >= need:
                return True
            if op == '>=' and re.match(r'^\d+$', r) and int(r) >= need:
                return True
            if op == '!=' and r == '0' and need == 1:
                return True
            if op == '==' and re.match(r'^\d+$', r) and int(r) >= need:
                return True
        if r == size:
            if op == '<' and re.match(r'^\d+$', l) and int(l) + 1 >= need:
                return True
            if op == '<=' and re.match(r'^\d+$', l) and int(l) >= need:
                return True
            if op == '!=' and l == '0' and need == 1:
                return True
    # size != 1 together with size >= 1 gives size >= 2
    if need == 2 and nonempty_proved(facts, size, 1):
        for l, op, r, _ in facts:
            if (l == size and r == '1' and op == '!=') or (r == size and l == '1' and op == '!='):
                return True
    return False


def prove_lt_core(prog, f, R, at_node, facts, I, ip, size):
    """I < size from facts (G1) or as an offset index a - b with b <= a < b + size (G8); returns (idiom, detail) or None"""
    if lt_proved(facts, I, size):
        return 'G1', '%s < %s by the enclosing loop / guard' % (I, size)
    # offset form
    pos = [(m, c) for m, c in ip.items() if c > 0 and m != ()]
    neg = [(m, c) for m, c in ip.items() if c < 0 and m != ()]
    if len(pos) == 1 and len(neg) == 1 and pos[0][1] == 1 and neg[0][1] == -1 and len(pos[0][0]) == 1 and len(neg[0][0]) == 1 and ip.get((), 0) == 0:
        a, b = pos[0][0][0], neg[0][0][0]
        ge = any((l == a and op == '>=' and r == b) or (l == b and op == '<=' and r == a) for l, op, r, _ in facts)
        if ge:
            for l, op, r, nid2 in facts:
                if l == a and op == '<':
                    bn = find_bound_poly(f, R, r, at_node) if r.startswith('local:') else {(r,): 1}
                    if bn is not None and P.equal(bn, P.add({(b,): 1}, {(size,): 1})):
                        return 'G8', '%s <= %s < %s + %s' % (b, a, b, size)
    return None


class Site:
    def __init__(self, f, nid, kind, cont_node, idx_node):
        self.f, self.nid, self.kind, self.cont_node, self.idx_node = f, nid, kind, cont_node, idx_node


def collect(prog, funcs):
    sites = []
    for f in funcs:
        for n in f.nodes:
            k = n['k']
            if k == 'CXXOperatorCallExpr' and n.get('op') == '[]' and n['callee'].get('classq') in ('std::vector', 'std::basic_string', 'std::array'):
                sites.append(Site(f, n['id'], 'sub', n['args'][0], n['args'][1]))
            elif k == 'ArraySubscriptExpr':
                sites.append(Site(f, n['id'], 'ptr', n['ch'][0], n['ch'][1]))
            elif k == 'CXXMemberCallExpr' and n['callee'].get('classq') in ('std::vector', 'std::basic_string', 'std::array') and n['callee']['name'] in ('front', 'back', 'pop_back'):
                sites.append(Site(f, n['id'], n['callee']['name'], n['obj'], None))
            elif k == 'UnaryOperator' and n['op'] == '*' and f.nodes[f.strip(n['ch'][0], 'all')]['k'] != 'CXXThisExpr':
                b_ = f.nodes[f.strip(n['ch'][0], 'all')]
                if b_['k'] == 'DeclRefExpr' and str(b_['decl'].get('name', '')).startswith(('__begin', '__range', '__end')):
                    continue   # the hidden iterator of a range-for: dereferenced only between begin and end
                b2_ = b_
                hops_ = 0
                while b2_['k'] in ('CXXReinterpretCastExpr', 'CStyleCastExpr', 'CXXStaticCastExpr', 'ImplicitCastExpr', 'ParenExpr', 'CXXConstCastExpr') and b2_['ch'] and hops_ < 6:
                    b2_ = f.nodes[b2_['ch'][0]]
                    hops_ += 1
                if b2_['k'] == 'UnaryOperator' and b2_.get('op') == '&':
                    continue   # *(T*)&object : the first bytes of an existing object
                sites.append(Site(f, n['id'], 'deref', n['ch'][0], None))
    return sites


def preceding_statements(f, nid):
    """statements that precede (in their compound statements) the statement containing nid, nearest first"""
    out = []
    child = nid
    for p in f.ancestors(nid):
        pn = f.nodes[p]
        if pn['k'] == 'CompoundStmt':
            for j, c in enumerate(pn['ch']):
                if c == child or child in f.descendants(c):
                    out.extend(reversed(pn['ch'][:j]))
                    break
        child = p
    return out


def shrinks_between(prog, f, cont_render, from_node, to_node):
    """a size-reducing / replacing effect on the container between two nodes of f"""
    g = f.events()
    a, b = g.vertex_of.get(from_node), g.vertex_of.get(to_node)
    if a is None or b is None:
        return False
    region = g.reach([a]) & (g.reach([g.ENTRY], avoid={b}) | {b})
    R = Renderer(f)
    for n in f.calls():
        v = g.vertex_of.get(n['id'])
        if v not in region:
            continue
        o = f.call_obj(n)
        if o is not None and not n['callee'].get('const') and uncast(R.render(o)) == cont_render and \
                n['callee']['name'] in ('clear', 'erase', 'pop_back', 'resize', 'assign', 'operator=', 'swap', 'shrink_to_fit'):
            return True
    return False


def prove(prog, s, ctx):
    """-> (verdict, idiom, detail)   verdict in ok / unproved"""
    f = s.f
    R = ctx.setdefault(('R', f.usr), Renderer(f))
    facts = facts_at(f, R, s.nid)
    facts = facts + flag_implications(f, R, facts)
    C = uncast(R.render(s.cont_node))
    size = C + '.size'
    if s.kind in ('sub',):
        I = uncast(R.render(s.idx_node))
        In = f.nodes[f.strip(s.idx_node, 'all')]
        # G1 / G3: a dominating comparison on the same container
        if lt_proved(facts, I, size):
            return 'ok', 'G1', '%s < %s by the enclosing loop / guard' % (I, size)
        const = int(In['cv']) if 'cv' in In else None
        if const is not None and const >= 0 and nonempty_proved(facts, size, const + 1):
            return 'ok', 'G3', '%s > %d by a dominating comparison' % (size, const)
        # index == size - 1 under size > 0
        ip = P.poly(f, s.idx_node, R)
        if P.equal(ip, P.add({(size,): 1}, P.const(-1))) and nonempty_proved(facts, size, 1):
            return 'ok', 'G3', 'last element under %s > 0' % size
        # G5: verified constant-size member
        m = re.match(r'^(.*)\.(\w+)$', C)
        if m and const is not None:
            cls = owner_class(prog, f, s.cont_node)
            if cls:
                K = ctx.setdefault(('K', cls, m.group(2)), CR.vector_size_invariant(prog, cls, m.group(2)))
                if K is not None and 0 <= const < K:
                    return 'ok', 'G5', 'every constructor of %s sizes %s to %d and nothing else resizes it' % (cls.split('::')[-1], m.group(2), K)
        if m:
            cls = owner_class(prog, f, s.cont_node)
            if cls:
                K = ctx.setdefault(('K', cls, m.group(2)), CR.vector_size_invariant(prog, cls, m.group(2)))
                if K is not None:
                    for l, op, r, _ in facts:
                        if l == I and op == '<' and re.match(r'^\d+$', r) and int(r) <= K:
                            return 'ok', 'G5', 'index < %s <= constant size %d' % (r, K)
        # G3b: index == j - 1 with 0 < j <= size (descending loop)
        for mono, cf_ in ip.items():
            pass
        for l, op, r, _ in facts:
            if op == '<=' and r == size and P.equal(ip, P.add({(l,): 1}, P.const(-1))) and any(l2 == l and op2 == '>' and r2 == '0' for l2, op2, r2, _ in facts):
                return 'ok', 'G3', '%s - 1 with 0 < %s <= %s (descending loop)' % (l, l, size)
        # G2: resize-before-assign
        for st in preceding_statements(f, s.nid):
            sn = f.nodes[st]
            if sn['k'] == 'IfStmt' and 'else' not in sn:
                at = []
                atoms_of_cond(f, R, sn['cond'], True, at)
                if len(at) == 1 and ((at[0][0] == I and at[0][1] == '>=' and at[0][2] == size) or (at[0][0] == size and at[0][1] == '<=' and at[0][2] == I)):
                    calls = [f.nodes[x] for x in f.descendants(sn['then']) if f.nodes[x]['k'] == 'CXXMemberCallExpr']
                    rs = [c for c in calls if c['callee']['name'] == 'resize' and uncast(R.render(c['obj'])) == C]
                    if len(rs) == 1 and P.equal(P.poly(f, rs[0]['args'][0], R), P.add(ip, P.const(1))) and not shrinks_between(prog, f, C, rs[0]['id'], s.nid):
                        return 'ok', 'G2', 'dominated by `if (%s >= %s) resize(%s + 1)`' % (I, size, I)
        # G2b: `C.resize(I + 1)` is a preceding statement of the same (or an enclosing) block
        for st in preceding_statements(f, s.nid):
            sn = f.nodes[f.strip(st, 'all')]
            if sn['k'] == 'CXXMemberCallExpr' and sn['callee']['name'] == 'resize' and len(sn.get('args', [])) in (1, 2) and sn.get('obj') is not None and \
                    uncast(R.render(sn['obj'])) == C and P.equal(P.poly(f, sn['args'][0], R), P.add(ip, P.const(1))) and not shrinks_between(prog, f, C, sn['id'], s.nid):
                return 'ok', 'G2', 'preceded by %s.resize(%s + 1)' % (C, I)
        # G2d: the container was padded by `for (k = C.size(); k < N; ++k) C.push_back(..)` before, and the index is below N
        pads = padded_to(prog, f, R, C, s.nid)
        for l, op, r, _ in facts:
            if l == I and op == '<' and r in pads:
                return 'ok', 'G2', 'container was padded up to %s before; index below %s' % (r, r)
        # G2c: the container was resized to N on a dominating path and the index is a loop variable below N
        for l, op, r, _ in facts:
            if l == I and op == '<':
                for st in preceding_statements(f, s.nid):
                    for x in f.descendants(st):
                        c = f.nodes[x]
                        if c['k'] == 'CXXMemberCallExpr' and c['callee']['name'] == 'resize' and len(c['args']) in (1, 2) and uncast(R.render(c['obj'])) == C and \
                                uncast(R.render(c['args'][0])) == r and not shrinks_between(prog, f, C, c['id'], s.nid):
                            # the resize may sit under `if (N > 0)`: with N == 0 the loop body is never entered
                            gf = facts_at(f, R, c['id'])
                            if all((gl == r and gop in ('>', '!=') and gr == '0') or (gl, gop, gr, gn) in facts for gl, gop, gr, gn in gf):
                                return 'ok', 'G2c', 'container was resized to %s before the loop over [0, %s)' % (r, r)
        # G6b: the index is the result of the object's own index-by-name function over the same container
        if ((In['k'] == 'DeclRefExpr' and In['decl'].get('dk') == 'local') or In['k'] == 'CXXMemberCallExpr') and C.startswith('this.') and C.count('.') == 1:
            from paths import local_init
            defs = []
            if In['k'] == 'CXXMemberCallExpr':
                defs.append(In['id'])
            ini = local_init(f, In['decl']['id']) if In['k'] == 'DeclRefExpr' else None
            if ini is not None:
                defs.append(ini)
            for a_ in (f.all_nodes({'BinaryOperator'}) if In['k'] == 'DeclRefExpr' else []):
                if a_['op'] == '=':
                    t_ = f.nodes[f.strip(a_['ch'][0], 'all')]
                    if t_['k'] == 'DeclRefExpr' and t_['decl'].get('id') == In['decl']['id']:
                        defs.append(a_['ch'][1])
            okb = bool(defs)
            for d_ in defs:
                dn = f.nodes[f.strip(d_, 'all')]
                cf = prog.funcs.get(dn.get('callee', {}).get('usr')) if dn['k'] == 'CXXMemberCallExpr' else None
                on = f.nodes[f.strip(dn['obj'], 'all')] if cf is not None and dn.get('obj') is not None else None
                if cf is None or on is None or on['k'] != 'CXXThisExpr' or cf.cls != f.cls or not cf.rec.get('const') or len(cf.params) != 1:
                    okb = False
                    break
                key_ = ('idxfn', cf.usr, C)
                if key_ not in ctx:
                    try:
                        import p_c11
                        al_ = {a: c for a, c in (('parameter', '_parameters'), ('group', '_groups'), ('point', '_points'), ('channel', '_channels'), ('subframe', '_subframe'), ('frame', '_frames')) if c == C[5:]}
                        ctx[key_] = p_c11.model_index_by_name(cf, C[5:], al_)[0] == 'ok'
                    except Exception:
                        ctx[key_] = False
                if not ctx[key_]:
                    okb = False
                    break
            if okb and not shrinks_between(prog, f, C, f.strip(defs[0], 'all'), s.nid):
                return 'ok', 'G6', 'index returned by the object\'s own index-by-name function over %s (first match below the size, else it throws)' % C
        # G6: index captured from a search loop, used under the sentinel test
        if In['k'] == 'DeclRefExpr' and In['decl'].get('dk') == 'local':
            ok6 = g6(prog, f, R, s, In, C, facts)
            if ok6:
                return 'ok', 'G6', ok6
        # G8: offset index  v[i - L] with L <= i < L + v.size
        if In['k'] == 'BinaryOperator' and In['op'] == '-':
            a, b = uncast(R.render(In['ch'][0])), uncast(R.render(In['ch'][1]))
            ge = any((l == a and op == '>=' and r == b) or (l == b and op == '<=' and r == a) for l, op, r, _ in facts)
            up = None
            for l, op, r, nid2 in facts:
                if l == a and op == '<':
                    up = (r, nid2)
            if ge and up:
                # the upper bound must be L + size
                bn = find_bound_poly(f, R, up[0], s.nid)
                if bn is not None and P.equal(bn, P.add({(b,): 1}, {(size,): 1})):
                    return 'ok', 'G8', '%s <= %s < %s + %s' % (b, a, b, size)
        # G9: the same element was already read on a dominating path
        g9 = reread(prog, f, R, s, C, I)
        if g9:
            return 'ok', 'G9', g9
        return 'unproved', None, 'no guard establishes %s < %s' % (I, size)
    if s.kind in ('front', 'back', 'pop_back'):
        if nonempty_proved(facts, size, 1):
            return 'ok', 'G3', '%s > 0 by a dominating comparison' % size
        for st in preceding_statements(f, s.nid)[:3]:
            for x in f.descendants(st):
                c = f.nodes[x]
                if c['k'] == 'CXXMemberCallExpr' and c['callee']['name'] == 'resize' and uncast(R.render(c['obj'])) == C and len(c['args']) == 1:
                    ap = P.poly(f, c['args'][0], R)
                    if ap.get((), 0) >= 1 and all(v > 0 for k2, v in ap.items()) and not shrinks_between(prog, f, C, c['id'], s.nid):
                        return 'ok', 'G2b', 'container was just resized to %s (>= 1)' % P.show(ap)
                if c['k'] == 'CXXMemberCallExpr' and c['callee']['name'] in ('push_back', 'emplace_back') and uncast(R.render(c['obj'])) == C:
                    # the append is on every path to the site (not under a condition / in a loop that may run zero times), nothing
                    # shrinks the container in between, and the site is not inside a loop that itself removes elements
                    g_ = f.events()
                    pv_, sv_ = g_.vertex_of.get(c['id']), g_.vertex_of.get(s.nid)
                    in_shrinking_loop = False
                    for a_ in f.ancestors(s.nid):
                        if f.nodes[a_]['k'] in ('ForStmt', 'WhileStmt', 'DoStmt', 'CXXForRangeStmt'):
                            for y in f.descendants(a_):
                                cy = f.nodes[y]
                                if cy['k'] == 'CXXMemberCallExpr' and cy['callee']['name'] in ('pop_back', 'erase', 'clear', 'resize') and cy.get('obj') is not None and uncast(R.render(cy['obj'])) == C:
                                    in_shrinking_loop = True
                    if pv_ is not None and sv_ is not None and g_.dominates(pv_, sv_) and not shrinks_between(prog, f, C, c['id'], s.nid) and not in_shrinking_loop:
                        return 'ok', 'G2b', 'an element was just appended'
        return 'unproved', None, 'no guard establishes that %s is not empty' % C
    if s.kind == 'ptr':
        return prove_ptr(prog, s, ctx, R, facts)
    if s.kind == 'deref':
        return prove_deref(prog, s, ctx, R)
    return 'unproved', None, 'unknown site kind'


def push_to_callers(prog, s, ctx):
    """site C[I] in a helper where C and I are expressed in the helper's parameters only: the bound
    I < C.size must follow, at every call site, from the caller's facts together with the helper's own
    facts at the site (both rewritten in the caller's terms)"""
    import codec
    f = s.f
    R = ctx.setdefault(('R', f.usr), Renderer(f))
    C = uncast(R.render(s.cont_node))
    if not re.match(r'^arg\d+$', C):
        return None
    ip = P.poly(f, s.idx_node, R)
    atoms = {a for m in ip for a in m}
    if not atoms or not all(re.match(r'^arg\d+(\.size)?$', a) for a in atoms):
        return None
    own = facts_at(f, R, s.nid)
    callers = [(g, cn) for g, cn in prog.callers_of(f.usr) if g.usr != f.usr]
    if not callers:
        return None
    notes = []
    for g, cn in callers:
        RG = ctx.setdefault(('R', g.usr), Renderer(g))
        args = g.call_args(cn)
        sub = {'arg%d' % k: uncast(RG.render(a)) for k, a in enumerate(args)}
        subp = {}
        for k, a in enumerate(args):
            subp['arg%d' % k] = P.poly(g, a, RG)

        def sp(p_):
            out = {}
            for mono, c in p_.items():
                term = P.const(c)
                for a in mono:
                    m = re.match(r'^(arg\d+)(\.size)?$', a)
                    if m and not m.group(2) and m.group(1) in subp:
                        term = P.mul(term, subp[m.group(1)])
                    elif m and m.group(2) and m.group(1) in sub:
                        term = P.mul(term, {(sub[m.group(1)] + '.size',): 1})
                    else:
                        term = P.mul(term, {(a,): 1})
                out = P.add(out, term)
            return out
        ipc = sp(ip)
        facts = facts_at(g, RG, cn['id'])
        facts = facts + flag_implications(g, RG, facts)
        for l, op, r, nid2 in own:
            facts.append((codec.substitute(l, sub), op, codec.substitute(r, sub), cn['id']))
        Ic = P.show(ipc) if len(ipc) != 1 else list(ipc.keys())[0][0] if list(ipc.values())[0] == 1 and len(list(ipc.keys())[0]) == 1 else P.show(ipc)
        got = prove_lt_core(prog, g, RG, cn['id'], facts, Ic, ipc, sub[C] + '.size')
        if not got:
            return None
        notes.append('%s (%s)' % (g.loc(cn['id']), got[0]))
    return ', '.join(notes)


def owner_class(prog, f, cont_node):
    n = f.nodes[f.strip(cont_node, 'all')]
    if n['k'] == 'MemberExpr' and n.get('mk') == 'field':
        return n.get('fclass')
    return None


def find_bound_poly(f, R, bound_render, nid):
    """polynomial of a loop bound given as a local's rendering"""
    m = re.match(r'^local:(\w+)$', bound_render)
    if not m:
        return None
    name = m.group(1)
    # every assignment to the local reaching here: take the one under the same branch conditions
    cands = []
    for n in f.all_nodes({'BinaryOperator'}):
        if n['op'] == '=' and R.render(n['ch'][0]) == bound_render:
            cands.append(n)
    site_facts = facts_at(f, R, nid)
    keep = []
    for c in cands:
        cf = facts_at(f, R, c['id'])
        # compatible when no fact of the assignment contradicts a fact of the site
        contra = False
        for l, op, r, _ in cf:
            for l2, op2, r2, _ in site_facts:
                if l == l2 and r == r2 and contradictory(op, op2):
                    contra = True
        if not contra:
            keep.append(c)
    if len(keep) != 1:
        return None
    return P.poly(f, keep[0]['ch'][1], R)


def contradictory(op1, op2):
    """no pair of integers (l, r) satisfies both  l op1 r  and  l op2 r"""
    sat = lambda op, d: {'<': d < 0, '<=': d <= 0, '>': d > 0, '>=': d >= 0, '==': d == 0, '!=': d != 0}[op]
    return not any(sat(op1, d) and sat(op2, d) for d in (-1, 0, 1))


def flag_implications(f, R, facts):
    """local X initialised to the constant 0 whose every later assignment sits in the then-branch of
    one `if (cond)`:  X != 0  (or X > 0)  implies cond"""
    out = []
    for l, op, r, _ in facts:
        m = re.match(r'^local:(\w+)$', l)
        if not (m and r == '0' and op in ('>', '!=')):
            continue
        name = m.group(1)
        decl = None
        for n in f.all_nodes({'DeclStmt'}):
            for d in n['decls']:
                if d['name'] == name and 'init' in d and f.nodes[f.strip(d['init'], 'all')].get('cv') == '0':
                    decl = d
        if decl is None:
            continue
        mods = [n for n in f.nodes if ((n['k'] == 'BinaryOperator' and n['op'] == '=') or n['k'] == 'CompoundAssignOperator' or (n['k'] == 'UnaryOperator' and n['op'] in ('++', '--')))
                and R.render(n['ch'][0]) == l]
        if not mods:
            continue
        holder = None
        okh = True
        for mnode in mods:
            h = None
            for p in f.ancestors(mnode['id']):
                pn = f.nodes[p]
                if pn['k'] == 'IfStmt' and (mnode['id'] in f.descendants(pn['then'])):
                    h = p
            if h is None or (holder is not None and h != holder):
                okh = False
                break
            holder = h
        if okh and holder is not None:
            atoms_of_cond(f, R, f.nodes[holder]['cond'], True, out)
    return out


def g6(prog, f, R, s, In, C, facts):
    vid = In['decl']['id']
    name = 'local:' + In['decl']['name']
    init = local_init(f, vid)
    if init is None or f.nodes[f.strip(init, 'all')].get('cv') != SIZE_MAX:
        return None
    if not any((l == name and op == '!=' and r == SIZE_MAX) or (r == name and op == '!=' and l == SIZE_MAX) for l, op, r, _ in facts):
        return None
    # every other definition: `name = i` with i a G1 loop variable over [0, C.size)
    defs = [n for n in f.all_nodes({'BinaryOperator'}) if n['op'] == '=' and R.render(n['ch'][0]) == name]
    if not defs:
        return None
    for d in defs:
        rn = f.nodes[f.strip(d['ch'][1], 'all')]
        if rn['k'] != 'DeclRefExpr':
            return None
        fs = facts_at(f, R, d['id'])
        if not lt_proved(fs, 'local:' + rn['decl']['name'], C + '.size'):
            return None
        if shrinks_between(prog, f, C, d['id'], s.nid):
            return None
    return 'index was captured from a search loop over [0, %s.size) and is used under the != SIZE_MAX test' % C


def reread(prog, f, R, s, C, I):
    g = f.events()
    sv = g.vertex_of.get(s.nid)
    if sv is None:
        return None
    for n in f.nodes:
        if n['id'] == s.nid or n['k'] != 'CXXOperatorCallExpr' or n.get('op') != '[]':
            continue
        if uncast(R.render(n['args'][0])) == C and uncast(R.render(n['args'][1])) == I:
            v = g.vertex_of.get(n['id'])
            if v is not None and v != sv and g.dominates(v, sv) and not shrinks_between(prog, f, C, n['id'], s.nid):
                return 'same element already read at %s on every path to this site' % f.loc(n['id'])
    return None


def prove_ptr(prog, s, ctx, R, facts):
    f = s.f
    base = f.nodes[f.strip(s.cont_node, 'all')]
    I = uncast(R.render(s.idx_node))
    # a local (or member) array of fixed extent N: a constant index below N, or an index the facts bound by a constant K <= N
    at_ = re.match(r'^(?:const )?[\w: ]+\[(\d+)\]$', str(base.get('t') or base.get('decl', {}).get('type') or base.get('ftype') or ''))
    if at_ and base['k'] in ('DeclRefExpr', 'MemberExpr') and (base['k'] == 'MemberExpr' or base['decl'].get('dk') == 'local'):
        N = int(at_.group(1))
        In_ = f.nodes[f.strip(s.idx_node, 'all')]
        if 'cv' in In_:
            if 0 <= int(In_['cv']) < N:
                return 'ok', 'G9', 'constant position %s of an array of %d elements' % (In_['cv'], N)
            return 'unproved', None, 'constant position %s of an array of %d elements' % (In_['cv'], N)
        for l, op, r, _ in facts:
            if l == I and op == '<' and re.match(r'^\d+$', str(r)) and int(r) <= N:
                return 'ok', 'G9', '%s < %s <= %d, the extent of the array' % (I, r, N)
            if l == I and op == '<=' and re.match(r'^\d+$', str(r)) and int(r) < N:
                return 'ok', 'G9', '%s <= %s < %d, the extent of the array' % (I, r, N)
        return 'undecided', None, 'position %s of an array of %d elements: no constant bound found [shape not read by the rule]' % (I, N)
    if base['k'] == 'DeclRefExpr' and base['decl'].get('dk') == 'param':
        pidx = [p['id'] for p in f.params].index(base['decl']['id'])
        # index bounded by another parameter: buffer contract at the callers
        bound = None
        for l, op, r, _ in facts:
            if l == I and op == '<' and re.match(r'^arg\d+$', r):
                bound = (r, 0)
        if re.match(r'^arg\d+$', I):
            bound = (I, 1)      # writes element [n]: needs n + 1
        if bound is None:
            return 'unproved', None, 'pointer parameter indexed without a bound by another parameter'
        need_arg = int(bound[0][3:])
        for g, cn in prog.callers_of(f.usr):
            RG = Renderer(g)
            args = g.call_args(cn)
            n_p = P.add(P.poly(g, args[need_arg], RG), P.const(bound[1]))
            ba = g.nodes[g.strip(args[pidx], 'all')]
            size_p = None
            if ba['k'] == 'CXXMemberCallExpr' and ba['callee']['name'] == 'get':
                import p_c18 as _p18
                an_ = _p18.as_new(g, ba['id'])
                if an_ and an_['array'] and an_['size'] is not None:
                    size_p = an_['size']
            elif ba['k'] == 'DeclRefExpr' and ba['decl'].get('dk') == 'local':
                init = local_init(g, ba['decl']['id'])
                import p_c18 as _p18
                an_ = _p18.as_new(g, init) if init is not None else None
                if an_ and an_['array'] and an_['size'] is not None:
                    size_p = an_['size']
            elif ba['k'] == 'DeclRefExpr' and ba['decl'].get('dk') == 'param':
                continue   # forwarded: checked where g is the callee
            elif ba['k'] == 'MemberExpr' and ba.get('mk') == 'field' and re.match(r'^(?:unsigned |signed )?char\[(\d+)\]$', ba.get('ftype', '')):
                size_p = P.const(int(re.match(r'^(?:unsigned |signed )?char\[(\d+)\]$', ba['ftype']).group(1)))
            elif ba['k'] == 'MemberExpr' and ba.get('mk') == 'field':
                import p_c18
                for h, nid2, rhs in p_c18.field_writes(prog, ba['fclass'], ba['member']):
                    an_ = p_c18.as_new(h, rhs) if rhs is not None else None
                    if an_ and an_['array'] and an_['size'] is not None:
                        size_p = an_['size']
            if size_p is None:
                return 'undecided', None, 'cannot resolve the allocation of the buffer passed at %s' % g.loc(cn['id'])
            import p_c18 as _p18c
            size_p = _p18c.const_subst(prog, g.cls, size_p)
            n_p = _p18c.const_subst(prog, g.cls, n_p)
            d = P.diff_const(size_p, n_p)
            if d is None or d < 0:
                return 'unproved', None, 'caller %s passes a buffer of %s for %s elements' % (g.loc(cn['id']), P.show(size_p) if size_p else '?', P.show(n_p))
        return 'ok', 'G4', 'every caller passes a buffer of at least %s + %d elements' % (bound[0], bound[1])
    return 'unproved', None, 'raw subscript on %s' % R.render(s.cont_node)


def prove_deref(prog, s, ctx, R):
    f = s.f
    inner = f.nodes[f.strip(s.cont_node, 'all')]
    n = f.nodes[s.nid]
    # smart pointers never show up here (operator*); this is a raw pointer dereference
    kind, path = root_of(f, s.cont_node)
    if inner['k'] == 'MemberExpr' and inner.get('mk') == 'field':
        # *reinterpret_cast<T*>(member buffer): the buffer must be at least sizeof(T)
        tw = (n.get('tw') or 0) // 8
        import p_c18
        sizes = []
        for h, nid2, rhs in p_c18.field_writes(prog, inner['fclass'], inner['member']):
            an_ = p_c18.as_new(h, rhs) if rhs is not None else None
            if an_ and an_['array'] and an_['size'] is not None:
                sizes.append((h, an_['size']))
            else:
                return 'undecided', None, 'buffer member assigned from something the rule cannot resolve to new[]'
        # allocation size m + 1 with m initialised to a constant in every constructor
        for h, sp in sizes:
            c = sp.get((), 0)
            rest = {k: v for k, v in sp.items() if k != ()}
            val = c
            for mono, coef in rest.items():
                mm = re.match(r'^this\.(\w+)$', mono[0]) if len(mono) == 1 else None
                if not mm:
                    return 'unproved', None, 'allocation size %s is not a constant' % P.show(sp)
                vals = CR.member_values(prog, inner['fclass'], mm.group(1))
                if not vals or any(v[0] != 'const' for v in vals):
                    # e.g. a default member initialiser instead of constructor initialisers: the value is not read here
                    return 'undecided', None, 'allocation size depends on %s, whose value the rule cannot read as a constant set by every constructor [shape not read by the rule]' % mm.group(1)
                val += coef * min(v[1] for v in vals)
            if val < tw:
                return 'unproved', None, 'buffer of %d bytes read as %d bytes' % (val, tw)
        if sizes:
            return 'ok', 'G4', 'member buffer allocated with at least %d bytes in every constructor' % tw
    if inner['k'] == 'DeclRefExpr' and inner['decl'].get('dk') == 'local':
        # a local pointer that is null or the address of an object (`T* hit = nullptr; ... hit = &element;`), dereferenced on the non-null side
        C = uncast(R.render(s.cont_node))
        fa = facts_at(f, R, s.nid)
        if any((l_ == C and op_ == '!=' and str(r_) in ('0', 'nullptr')) or (l_ == C and op_ == '>' and str(r_) == '0') for l_, op_, r_, _x in fa):
            srcs = []
            for nd in f.nodes:
                if nd['k'] == 'BinaryOperator' and nd.get('op') == '=' and uncast(R.render(nd['ch'][0])) == C:
                    srcs.append(f.nodes[f.strip(nd['ch'][1], 'all')])
            from paths import local_init
            ini = local_init(f, inner['decl']['id'])
            if ini is not None:
                srcs.append(f.nodes[f.strip(ini, 'all')])
            if srcs and all(x['k'] in ('CXXNullPtrLiteralExpr', 'GNUNullExpr') or str(x.get('cv')) == '0' or (x['k'] == 'UnaryOperator' and x.get('op') == '&') for x in srcs):
                return 'ok', 'G8', 'local pointer that is null or the address of an object, dereferenced under a non-null test'
        return 'undecided', None, 'dereference of a local pointer whose target the rule does not follow [shape not read by the rule]'
    return 'unproved', None, 'raw pointer dereference'


# ---------------------------------------------------------------------------------------------

def recursion_sites(prog):
    """G7: for the recursive matrix walkers the sites dim[cur] (and dim[0]) are safe iff every
    external entry call has cur0 < dim.size.  Returns {usr: (cur_param, dim_param)} for functions
    that follow the scheme (verified by the codec rules)."""
    out = {}
    table = [('ezc3d::c3d::readParam', 4, 3, 1, 'r'), ('ezc3d::c3d::readParam', 3, 2, 0, 'r'), ('ezc3d::c3d::_readMatrix', 3, 2, 0, 'r'),
             ('ezc3d::ParametersNS::GroupNS::Parameter::writeImbricatedParameter', 4, 2, 1, 'w')]
    for q, np, cur, dim, mode in table:
        try:
            f = prog.fn(q, nparams=np)
        except AnalysisBroken:
            continue
        okr, why, leaf = CR.recursion_scheme(prog, f, cur, dim, mode)
        if okr:
            out[f.usr] = (cur, dim)
    # _dispatchMatrix has the same shape with extra parameters (no I/O): checked structurally
    try:
        f = prog.fn('ezc3d::c3d::_dispatchMatrix', nparams=5)
        R = Renderer(f)
        fors = [n for n in f.all_nodes({'ForStmt'})]
        outer = normal_for(f, fors[0]['id']) if fors else None
        if outer and R.render(outer['bound']) == 'arg0[arg4]':
            ifs = [n for n in f.all_nodes({'IfStmt'}) if R.render(n['cond']) == '(arg4 == (arg0.size - 1))' and 'else' in n]
            if len(ifs) == 1:
                rec = [c for c in f.calls() if c['callee']['usr'] == f.usr and c['id'] in f.descendants(ifs[0]['else'])]
                if len(rec) == 1 and R.render(rec[0]['args'][4]) == '(arg4 + 1)' and R.render(rec[0]['args'][0]) == 'arg0':
                    out[f.usr] = (4, 0)
        if f.usr not in out:
            # depth test hoisted out of the loops: every loop runs to dim[cur], the only recursive call passes (dim, cur + 1)
            lfs = [normal_for(f, n['id']) for n in fors]
            rec = [c for c in f.calls() if c['callee']['usr'] == f.usr]
            tests = [n for n in f.all_nodes({'IfStmt'}) if R.render(n['cond']) in ('(arg4 == (arg0.size - 1))', '(arg4 != (arg0.size - 1))', '((arg0.size - 1) == arg4)')]
            top_loops = [l for l in lfs if l and not enclosing_fors(f, l['for'])]
            if fors and all(l is not None for l in lfs) and top_loops and all(R.render(l['bound']) == 'arg0[arg4]' and l['start_cv'] == '0' and l['op'] == '<' for l in top_loops) and \
                    len(rec) == 1 and len(tests) == 1 and R.render(rec[0]['args'][4]) == '(arg4 + 1)' and R.render(rec[0]['args'][0]) == 'arg0':
                out[f.usr] = (4, 0)
    except AnalysisBroken:
        pass
    return out


def nonempty_by_construction(prog, f, cont_render, at_node):
    """G10: on every path to at_node the container received at least one push_back after being
    empty-or-more: an if/else where one branch pushes unconditionally and the other runs a
    push_back loop `for (i = 0; i < N; ++i)` in the else-branch of `N == 0`"""
    R = Renderer(f)
    for st in preceding_statements(f, at_node):
        sn = f.nodes[st]
        if sn['k'] != 'IfStmt' or 'else' not in sn:
            continue
        at = []
        atoms_of_cond(f, R, sn['cond'], True, at)
        if len(at) != 1 or at[0][1] not in ('==', '!=') or at[0][2] != '0':
            continue
        N = at[0][0]
        if at[0][1] == '!=':
            sn = dict(sn, then=sn['else'], **{'else': sn['then']})

        def pushes(i):
            return [f.nodes[x] for x in f.descendants(i) if f.nodes[x]['k'] == 'CXXMemberCallExpr' and f.nodes[x]['callee']['name'] in ('push_back', 'emplace_back')
                    and uncast(R.render(f.nodes[x]['obj'])) == cont_render]
        th = pushes(sn['then'])
        el = pushes(sn['else'])
        # the else-branch may fill the container with std::generate_n(std::back_inserter(C), N, ...) / C.resize(N) / C.assign(N, ..)
        if th and not el:
            for x in f.descendants(sn['else']):
                c_ = f.nodes[x]
                if c_['k'] == 'CallExpr' and c_.get('callee', {}).get('qname') == 'std::generate_n' and len(f.call_args(c_)) == 3:
                    d0 = f.nodes[f.strip(f.call_args(c_)[0], 'all')]
                    if d0['k'] == 'CallExpr' and d0.get('callee', {}).get('qname') == 'std::back_inserter' and d0.get('args') and uncast(R.render(d0['args'][0])) == cont_render and \
                            uncast(R.render(f.call_args(c_)[1])) == N and not shrinks_between(prog, f, cont_render, c_['id'], at_node):
                        if not (enclosing_fors(f, th[0]['id']) and any(y in f.descendants(sn['then']) for y in enclosing_fors(f, th[0]['id']))):
                            return 'scalar branch pushes one element; matrix branch appends %s != 0 generated elements' % N
        if not th or not el:
            continue
        # then-branch: unconditional push; else-branch: loop i in [0, N) pushing each iteration
        if enclosing_fors(f, th[0]['id']) and any(x in f.descendants(sn['then']) for x in enclosing_fors(f, th[0]['id'])):
            continue
        fs = [x for x in enclosing_fors(f, el[0]['id']) if x in f.descendants(sn['else']) or x == f.strip(sn['else'])]
        if len(fs) != 1:
            continue
        lf = normal_for(f, fs[0])
        if lf and lf['start_cv'] == '0' and lf['op'] == '<' and uncast(R.render(lf['bound'])) == N and not shrinks_between(prog, f, cont_render, el[0]['id'], at_node):
            return 'scalar branch pushes one element; matrix branch pushes %s != 0 elements' % N
    return None


def padded_to(prog, f, R, C, at_node):
    """bounds N such that a preceding statement is `for (k = C.size(); k < N; ++k) C.push_back(...)` (nothing shrinks C afterwards)"""
    out = []
    for st in preceding_statements(f, at_node):
        sn = f.nodes[st]
        if sn['k'] != 'ForStmt':
            continue
        lf = normal_for(f, st)
        if lf is None or lf['op'] != '<' or uncast(R.render(lf['start'])) != C + '.size':
            continue
        body = [f.nodes[x] for x in f.descendants(lf['body'])]
        pb = [b for b in body if b['k'] == 'CXXMemberCallExpr' and b['callee']['name'] in ('push_back', 'emplace_back') and b.get('obj') is not None and uncast(R.render(b['obj'])) == C]
        if len(pb) == 1 and not shrinks_between(prog, f, C, st, at_node):
            out.append(uncast(R.render(lf['bound'])))
    return out


def size_tested_somewhere(f, R, C):
    """function f compares the size of container C (or asks whether it is empty) somewhere"""
    for m_ in f.nodes:
        if m_['k'] == 'CXXMemberCallExpr' and m_['callee']['name'] in ('size', 'empty') and m_.get('obj') is not None and uncast(R.render(m_['obj'])) == C:
            par = f.nodes[m_['p']] if m_.get('p') is not None else None
            hops_ = 0
            while par is not None and par['k'] in ('ImplicitCastExpr', 'ParenExpr', 'CXXStaticCastExpr', 'UnaryOperator') and hops_ < 4:
                par = f.nodes[par['p']] if par.get('p') is not None else None
                hops_ += 1
            if m_['callee']['name'] == 'empty' or (par is not None and par['k'] == 'BinaryOperator' and par.get('op') in ('==', '!=', '<', '>', '<=', '>=')):
                return True
    return False


def overrun_evidence(prog, s, ctx):
    """positive evidence that an unproved site can be reached with an index outside the container:
    E1 the only bound on the index is `<= size` (or == size): the index can equal the size;
    E2 the index is an unconstrained parameter of a public function: any caller value reaches it;
    E3 a constant index / front / back / pop_back / dereference with no test of the size at all
       (an empty container reaches it) - the K5 class.
    Otherwise None: the site is unproved but nothing demonstrates an overrun."""
    f = s.f
    R = ctx.setdefault(('R', f.usr), Renderer(f))
    facts = facts_at(f, R, s.nid)
    C = uncast(R.render(s.cont_node))
    size = C + '.size'
    if s.kind != 'sub':
        if not any(size in (l, r) for l, op, r, _ in facts):
            return 'no test of %s precedes the access (an empty container reaches it)' % size
        return None
    I = uncast(R.render(s.idx_node))
    In = f.nodes[f.strip(s.idx_node, 'all')]
    for l, op, r, _ in facts:
        if (l == I and r == size and op in ('<=', '==')) or (l == size and r == I and op in ('>=', '==')):
            if not lt_proved(facts, I, size):
                return 'the index is only bounded by %s %s %s: it can equal the size' % (l, op, r)
    # E6: the last element is read under a guard that does not exclude the empty container (size >= 0, size != -1 ...)
    try:
        ipoly = P.poly(f, s.idx_node, R)
        if P.equal(ipoly, P.add({(size,): 1}, P.const(-1))) and not nonempty_proved(facts, size, 1):
            for l, op, r, _ in facts:
                if l == size and ((op == '>=' and r == '0') or (op == '>' and r.startswith('-'))):
                    return 'the only test before reading the last element is %s %s %s, which an empty container passes: element SIZE_MAX is read' % (l, op, r)
    except Exception:
        pass
    # E5: the container was padded up to one bound and is indexed below another
    pads = padded_to(prog, f, R, C, s.nid)
    if pads:
        for l, op, r, _ in facts:
            if l == I and op == '<' and r not in pads and not re.match(r'^\d+$', r):
                return 'the container was padded up to %s but the index runs below %s: when that exceeds %s the subscript passes the end' % (pads[0], r, pads[0])
    if 'cv' in In:
        if not any(size in (l, r) for l, op, r, _ in facts):
            # a test that mentions the container in another form (a count computed from it by a helper) is a guard the rule cannot
            # read, here or at the call sites of this function: not evidence of an overrun
            # the author does test the size of this container somewhere in this function (through a flag, an enumeration, a
            # switch ... that the path facts do not carry to this site): not "no test at all"
            if size_tested_somewhere(f, R, C):
                return None

            def as_argument(text):
                # the container handed whole to something (a helper that computes a count from it), not one of its elements / members
                return re.search(re.escape(C) + r'(?=[,)]|$)', text) is not None and '(' in text
            if any((as_argument(l) or as_argument(r)) for l, op, r, _ in facts):
                return None
            for g_, cn_ in prog.callers_of(f.usr):
                if g_.usr == f.usr:
                    continue
                Rg_ = ctx.setdefault(('R', g_.usr), Renderer(g_))
                actual = C
                m_ = re.match(r'^arg(\d+)(.*)$', C)
                if m_ and int(m_.group(1)) < len(g_.call_args(cn_)):
                    actual = uncast(Rg_.render(g_.call_args(cn_)[int(m_.group(1))])) + m_.group(2)
                elif C.startswith('this.') and g_.call_obj(cn_) is not None and Rg_.render(g_.call_obj(cn_)) not in ('this', '*(this)'):
                    actual = uncast(Rg_.render(g_.call_obj(cn_))) + C[4:]
                cf_ = facts_at(g_, Rg_, cn_['id'])
                if any(re.search(re.escape(actual) + r'(?=[,)]|$)', t_) is not None and '(' in t_ for l, op, r, _ in cf_ for t_ in (l, r)):
                    return None
                # the same criterion as at the site itself: some test of the size of that container precedes the call
                if any((actual + '.size') in (l, r) for l, op, r, _ in cf_) or size_tested_somewhere(g_, Rg_, actual):
                    return None
            # a member container reached through a chain of members of the same class called on the same object: the test
            # may sit two or three calls up (write -> writeMatrix -> writeValue)
            if C.startswith('this.'):
                seen_, frontier = {f.usr}, [f]
                for _lvl in range(3):
                    nxt = []
                    for h_ in frontier:
                        for g_, cn_ in prog.callers_of(h_.usr):
                            if g_.usr in seen_ or g_.cls != f.cls:
                                continue
                            o_ = g_.call_obj(cn_)
                            if o_ is not None and g_.nodes[g_.strip(o_, 'all')]['k'] != 'CXXThisExpr':
                                continue
                            seen_.add(g_.usr)
                            nxt.append(g_)
                            if size_tested_somewhere(g_, ctx.setdefault(('R', g_.usr), Renderer(g_)), C):
                                return None
                    frontier = nxt
            return 'element %s is read with no test of %s (a shorter container reaches it)' % (In['cv'], size)
        return None
    # E4: the index is computed from a value just read from the file and nothing compares it (or the
    # index) with the size of the container: the file chooses the element
    import codec as _codec
    for x in f.descendants(s.idx_node):
        m_ = f.nodes[x]
        if m_['k'] == 'DeclRefExpr' and m_['decl'].get('dk') == 'local':
            from paths import local_init
            ini = local_init(f, m_['decl']['id'])
            inn = f.nodes[f.strip(ini, 'all')] if ini is not None else None
            if inn is not None and inn['k'] == 'CXXMemberCallExpr' and inn['callee']['name'] in _codec.READERS and inn['callee'].get('classq') == 'ezc3d::c3d':
                lname = 'local:' + m_['decl']['name']
                related = [1 for l, op, r, _ in facts if (lname in l or lname in r or I in (l, r)) and (size in l or size in r)]
                grown = [c_ for c_ in f.calls() if c_['callee']['name'] in ('resize', 'push_back', 'emplace_back') and c_.get('obj') is not None and uncast(R.render(c_['obj'])) == C]
                if not related and (not grown or 'abs(' in I):
                    return 'the index %s is computed from `%s`, read from the file by %s, and nothing compares it with %s%s' % (
                        I, m_['decl']['name'], inn['callee']['name'], size, ' (for the value 0, abs(%s) - 1 wraps to SIZE_MAX)' % m_['decl']['name'] if 'abs(' in I else '')
    # E7: the container is a string handed back by c3d::readString, which stops at the first NUL byte of what it read: it may
    # be shorter than the number of bytes asked for, and nothing relates the index to its actual size
    cn_ = f.nodes[f.strip(s.cont_node, 'all')]
    if cn_['k'] == 'DeclRefExpr' and cn_['decl'].get('dk') == 'local' and 'basic_string' in str(cn_['decl'].get('type', '')):
        from paths import local_init as _li3
        ini = _li3(f, cn_['decl']['id'])
        src_ = None
        if ini is not None:
            for x in [ini] + list(f.descendants(ini)):
                xn = f.nodes[x]
                if xn['k'] == 'CXXMemberCallExpr' and xn['callee']['name'] == 'readString' and xn['callee'].get('classq') == 'ezc3d::c3d':
                    src_ = xn
        if src_ is not None and not any(size in (l, r) for l, op, r, _ in facts):
            return 'the string comes from readString(), which stops at the first NUL byte it has read: it can be shorter than the %s the index runs to, and nothing compares the index with %s' % (
                next((r for l, op, r, _ in facts if l == I and op in ('<', '<=')), 'count'), size)
    # E4b: the index is bounded only by a member that this very function fills from the file, and nothing relates that
    # member (or the index) to the size of the container
    for l, op, r, _ in facts:
        if l != I or op not in ('<', '<=') or not re.match(r'^this\.\w+$', r):
            continue
        if any((size in (l2, r2)) and (r in (l2, r2) or I in (l2, r2)) for l2, op2, r2, _x in facts):
            continue
        src = None
        for m_ in f.all_nodes({'BinaryOperator'}):
            if m_['op'] == '=' and uncast(R.render(m_['ch'][0])) == r:
                for x in [m_['ch'][1]] + list(f.descendants(m_['ch'][1])):
                    xn = f.nodes[x]
                    if xn['k'] == 'CXXMemberCallExpr' and xn['callee']['name'] in _codec.READERS and xn['callee'].get('classq') == 'ezc3d::c3d':
                        src = xn['callee']['name']
        grown = [c_ for c_ in f.calls() if c_['callee']['name'] in ('resize', 'push_back', 'emplace_back', 'assign') and c_.get('obj') is not None and uncast(R.render(c_['obj'])) == C]
        if src and not grown:
            return 'the index runs below %s, which this function reads from the file (%s), and nothing compares it with %s: the file chooses how far the subscript goes' % (r, src, size)
    public = (f.rec.get('access') in ('public', None, 'none')) and not f.rec.get('internal') and '(anonymous namespace)' not in f.qname
    # (not for continuation parameters: a defaulted parameter of a function that calls itself is set by the function, not by its users)
    pidx_ = [p_['id'] for p_ in f.params].index(In['decl']['id']) if In['k'] == 'DeclRefExpr' and In['decl'].get('dk') == 'param' and In['decl'].get('id') in [p_['id'] for p_ in f.params] else None
    continuation = pidx_ is not None and (f.params[pidx_].get('hasdefault') or any(c_['callee']['usr'] == f.usr for c_ in f.calls()))
    if In['k'] == 'DeclRefExpr' and In['decl'].get('dk') == 'param' and public and not continuation:
        if not any(I in (l, r) for l, op, r, _ in facts):
            return 'the index is the unchecked parameter `%s` of a public function: every value a caller passes reaches the subscript' % In['decl'].get('name')
    return None


def rule(prog, res, scope=None, rule_name='index-site'):
    funcs = [f for f in prog.repo_funcs() if scope is None or f.usr in scope]
    sites = collect(prog, funcs)
    inv = json.load(open(os.path.join(VERIF, 'spec', 'invariants.json'))).get('index_sites', [])
    rec = recursion_sites(prog)
    ctx = {}
    n = 0
    per = {}
    for s in sites:
        f = s.f
        R = ctx.setdefault(('R', f.usr), Renderer(f))
        C = uncast(R.render(s.cont_node))
        I = uncast(R.render(s.idx_node)) if s.idx_node is not None else s.kind
        key = re.sub(r'local:\w+', '$v', '%s[%s]' % (C, I))
        inst = '%s[%s]' % (C[-70:], I[-40:])
        n += 1
        # G7: recursion scheme
        if f.usr in rec and s.kind == 'sub':
            cur, dim = rec[f.usr]
            Cq = C
            # the dimension list parameter is the object's own _dimension at every external call
            if C.startswith('this.') and all(uncast(Renderer(g).render(g.call_args(cn)[dim])) == C and (g.call_obj(cn) is None or Renderer(g).render(g.call_obj(cn)) == 'this')
                                             for g, cn in prog.callers_of(f.usr) if g.usr != f.usr):
                Cq = 'arg%d' % dim
            if Cq == 'arg%d' % dim and I in ('arg%d' % cur, '0'):
                verdict, detail = entry_calls_ok(prog, f, cur, dim, rec)
                if verdict:
                    res.ok(rule_name, inst, f.loc(s.nid), 'G7 recursion scheme: ' + detail, function=f.sig, expr=key + '@%d' % s.nid)
                    per['G7'] = per.get('G7', 0) + 1
                    continue
        verdict, idiom, detail = prove(prog, s, ctx)
        if verdict == 'ok':
            res.ok(rule_name, inst, f.loc(s.nid), '%s: %s' % (idiom, detail), function=f.sig, expr=key + '@%d' % s.nid)
            per[idiom] = per.get(idiom, 0) + 1
            continue
        if verdict == 'undecided':
            res.undecided(rule_name, inst, f.loc(s.nid), detail, function=f.sig, expr=key)
            continue
        if verdict != 'ok' and s.kind == 'sub':
            pushed = push_to_callers(prog, s, ctx)
            if pushed:
                res.ok(rule_name, inst, f.loc(s.nid), 'G4p contract of a helper, established at every call site: ' + pushed, function=f.sig, expr=key + '@%d' % s.nid)
                per['G4p'] = per.get('G4p', 0) + 1
                continue
        j = [e for e in inv if e['function'] == f.qname and e['site'] == key]
        if not j and f.cls:
            # the same site in a member the listed function was split into (same class, same container, same index)
            cs_ = {g_.qname for g_, _c in prog.callers_of(f.usr) if g_.usr != f.usr}
            j = [e for e in inv if e['site'] == key and e['function'].rsplit('::', 1)[0] == f.cls and cs_ == {e['function']} and
                 f.rec.get('access') in ('private', 'protected')]
        broken = invariant_broken(prog, j[0]) if j else None
        if j and broken:
            res.viol(rule_name, inst, f.loc(s.nid), '%s; the invariant that justifies this site (values held = product of the dimensions) is broken: %s' % (detail, broken), function=f.sig, expr=key)
            continue
        if j and invariant_holds(prog, j[0]):
            res.ok(rule_name, inst, f.loc(s.nid), 'justified (spec/invariants.json): ' + j[0]['reason'], function=f.sig, expr=key + '@%d' % s.nid, nontrivial=False)
            per['justified'] = per.get('justified', 0) + 1
            continue
        if j:
            ev_ = overrun_evidence(prog, s, ctx)
            if ev_:
                res.viol(rule_name, inst, f.loc(s.nid), '%s: %s (the justification of spec/invariants.json no longer holds on this tree)' % (detail, ev_), function=f.sig, expr=key)
            else:
                res.undecided(rule_name, inst, f.loc(s.nid), detail + ' (spec/invariants.json justifies this site, but the mechanical part of the justification no longer holds on this tree)', function=f.sig, expr=key)
        else:
            ev_ = overrun_evidence(prog, s, ctx)
            callers_ = [(g_, c_) for g_, c_ in prog.callers_of(f.usr) if g_.usr != f.usr]
            if ev_ and (f.rec.get('internal') or '(anonymous namespace)' in f.qname) and re.search(r'\barg\d+\b', key) and callers_ and len(callers_) <= 12:
                # a file-local helper: the read is reported where it is asked for, in the caller's terms (one report per call site), so that
                # a finding identified by the value read is recognised wherever the read was moved
                from codec import substitute
                for g_, c_ in callers_:
                    Rg = ctx.setdefault(('R', g_.usr), Renderer(g_))
                    sub_ = {'arg%d' % i_: re.sub(r'^\*\((.*)\)$', r'\1', uncast(Rg.render(a_))) for i_, a_ in enumerate(g_.call_args(c_))}
                    k2 = re.sub(r'\barg(\d+)\b', lambda m_: sub_.get(m_.group(0), m_.group(0)), key)
                    res.viol(rule_name, re.sub(r'\barg(\d+)\b', lambda m_: sub_.get(m_.group(0), m_.group(0)), inst), g_.loc(c_['id']), '%s: %s (read inside %s, called here)' % (detail, ev_, f.name),
                             function=g_.sig, expr=k2)
                continue
            if ev_:
                res.viol(rule_name, inst, f.loc(s.nid), '%s: %s' % (detail, ev_), function=f.sig, expr=key)
            else:
                res.undecided(rule_name, inst, f.loc(s.nid), (detail or '') + ' [no proof found, and no input that overruns is demonstrated: the index is computed from values the rule cannot relate to the size]',
                              function=f.sig, expr=key)
    res.info.setdefault('index_site_idioms', {}).update(per)
    return n


def entry_calls_ok(prog, f, cur, dim, rec):
    """every call of f from outside f passes (dim, cur0) with cur0 < dim.size provable at the call"""
    details = []
    for g, cn in prog.callers_of(f.usr):
        if g.usr == f.usr:
            continue
        RG = Renderer(g)
        args = g.call_args(cn)
        d = uncast(RG.render(args[dim]))
        c0n = g.nodes[g.strip(args[cur], 'all')] if cur < len(args) else None
        c0 = None
        if c0n is None or c0n['k'] == 'CXXDefaultArgExpr':
            pd = f.params[cur].get('default_cv')
            c0 = int(pd) if pd is not None else None
        elif 'cv' in c0n:
            c0 = int(c0n['cv'])
        if c0 is None:
            return False, 'entry call at %s passes a non-constant start index' % g.loc(cn['id'])
        facts = facts_at(g, RG, cn['id'])
        facts = facts + flag_implications(g, RG, facts)
        if nonempty_proved(facts, d + '.size', c0 + 1):
            details.append('%s: %s.size > %d' % (g.loc(cn['id']), d, c0))
            continue
        # the caller is itself a scheme function forwarding its own dimension parameter
        if g.usr in rec and d == 'arg%d' % rec[g.usr][1] and c0 <= 0:
            details.append('%s: forwards its own dimension list' % g.loc(cn['id']))
            continue
        # forwarding inside the string reader: readParam(dim, strings) -> _readMatrix(dim) / _dispatchMatrix(dim, .., 1)
        if re.match(r'^arg\d+$', d):
            ok2, det2 = forwarded_ok(prog, g, int(d[3:]), c0, facts, cn, rec)
            if ok2:
                details.append(det2)
                continue
        ne = nonempty_by_construction(prog, g, d, cn['id'])
        if ne and c0 == 0:
            details.append('%s: %s' % (g.loc(cn['id']), ne))
            continue
        return False, 'entry call at %s: cannot show %s.size > %d' % (g.loc(cn['id']), d, c0)
    return True, '; '.join(details)[:300]


def forwarded_ok(prog, g, dim_param, c0, facts, cn, rec):
    """g forwards its own parameter `dim` with start index c0: every caller of g must establish
    dim.size > c0', where the facts inside g at the call may strengthen it (size != 1)"""
    need = c0 + 1
    local_ne1 = any((l == 'arg%d.size' % dim_param and op == '!=' and r == '1') for l, op, r, _ in facts)
    for h, hn in prog.callers_of(g.usr):
        RH = Renderer(h)
        d = uncast(RH.render(h.call_args(hn)[dim_param]))
        hf = facts_at(h, RH, hn['id'])
        base = 1 if (nonempty_proved(hf, d + '.size', 1) or nonempty_by_construction(prog, h, d, hn['id'])) else 0
        have = base
        if base >= 1 and local_ne1:
            have = 2
        # a sibling call in g that requires size >= 1 and dominates this call also establishes it
        if have < need:
            return False, ''
    return True, '%s: forwarded dimension list, callers establish size >= %d' % (g.loc(cn['id']), need)


_broken_cache = {}


def invariant_broken(prog, entry):
    """positive evidence against an invariants.json entry: for count-equals-product, a typed setter that modifies the
    parameter before (or without) its consistency test leaves, after a refused call, dimensions and values that disagree"""
    chk = entry.get('check') or {}
    if chk.get('kind') != 'count-equals-product':
        return None
    key = id(prog)
    if key not in _broken_cache:
        import p_c09
        from result import Result as _R, VIOL
        tmp = _R('x', 'quick', '')
        try:
            p_c09.validate_first_rule(prog, tmp)
            v = [o for o in tmp.obs if o['verdict'] == VIOL]
            if not v:
                # ... or a reader that stores fewer strings than the dimensions declare (a store that depends on the characters read)
                g2 = [f_ for f_ in prog.fns('ezc3d::c3d::readParam') if len(f_.params) == 2]
                if g2:
                    tmp2 = _R('x', 'quick', '')
                    CR.string_assembly_rule(prog, tmp2, 'assembly', g2[0])
                    v = [o for o in tmp2.obs if o['verdict'] == VIOL and 'is stored' in o['detail'] and 'only when' in o['detail']]
            _broken_cache[key] = ('%s: %s' % (v[0]['instance'], v[0]['detail'][:220])) if v else None
        except Exception:
            _broken_cache[key] = None
    return _broken_cache[key]


def invariant_holds(prog, entry):
    """mechanical part of an invariants.json entry"""
    chk = entry.get('check')
    if not chk:
        return True
    if chk['kind'] == 'gate-read':
        # updateHeader reads element [0] of the same parameter
        f = prog.fn('ezc3d::c3d::updateHeader', nparams=0)
        R = Renderer(f)
        for n in f.nodes:
            if n['k'] == 'CXXOperatorCallExpr' and n.get('op') == '[]' and uncast(R.render(n['args'][0])) == chk['container'] and uncast(R.render(n['args'][1])) == '0':
                return True
        return False
    if chk['kind'] == 'scheme':
        try:
            rm = prog.fn('ezc3d::c3d::_readMatrix', nparams=3)
            okr, why, leaf = CR.recursion_scheme(prog, rm, 2, 0, 'r')
            if not okr:
                return False
            import codec
            pushes = [it for it in CR.io_only(leaf) if it[0] == 'io' and it[1].get('dest') == 'arg1[+]']
            if len(pushes) != 1:
                return False
            dm = prog.fn('ezc3d::c3d::_dispatchMatrix', nparams=5)
            Rd = Renderer(dm)
            rets = [Rd.render(n['ch'][0]) for n in dm.all_nodes({'ReturnStmt'}) if n['ch']]
            incs = [n for n in dm.all_nodes({'UnaryOperator'}) if n['op'] == '++' and Rd.render(n['ch'][0]) == 'arg3']
            return rets == ['arg3'] and len(incs) == 1
        except AnalysisBroken:
            return False
    if chk['kind'] == 'count-equals-product':
        # the only writers of the value vectors and of _dimension are the typed setters (guarded by
        # isDimensionConsistent, verified by C09 validate-first) and Parameter::read
        import p_c18
        PRM = 'ezc3d::ParametersNS::GroupNS::Parameter'
        okf = {PRM + '::set', PRM + '::read'}
        for fld in ('_dimension', '_param_data_int', '_param_data_float', '_param_data_string'):
            for h, nid, rhs in p_c18.field_writes(prog, PRM, fld):
                if h.implicit:
                    continue
                if h.qname not in okf:
                    # a helper of the class that only the setters / the reader call is part of them
                    cs = [g_ for g_, _cn in prog.callers_of(h.usr)]
                    if not (h.cls == PRM and cs and all(g_.qname in okf for g_ in cs)):
                        return False
        return True
    return True


OWN_ACCESSORS = {'frame': '_frames', 'point': '_points', 'subframe': '_subframe', 'channel': '_channels', 'group': '_groups', 'parameter': '_parameters'}


def const_accessor_rule(prog, res, funcs, rule_name='constant-position'):
    """X.acc(k) with a literal k through one of the library's checked positional accessors, under a guard on
    the size of that very container: the guard states the author's belief about the size; when it admits a
    size <= k the accessor throws std::out_of_range on a state the guard let through (belief vs use)"""
    n_sites = 0
    for f in funcs:
        R = None
        for c in f.calls():
            nm = c['callee']['name']
            if nm not in OWN_ACCESSORS or c['k'] != 'CXXMemberCallExpr' or len(f.call_args(c)) != 1 or not str(c['callee'].get('class', '')).startswith('ezc3d::'):
                continue
            a = f.nodes[f.strip(f.call_args(c)[0], 'all')]
            if a.get('cv') is None or a.get('tc') not in ('u', 's'):
                continue
            try:
                k = int(a['cv'])
            except (TypeError, ValueError):
                continue
            R = R or Renderer(f)
            size = '%s.%s.size' % (uncast(R.render(f.call_obj(c))), OWN_ACCESSORS[nm])
            lo = None
            why = []
            for l, op, r, _ in facts_at(f, R, c['id']):
                if l != size or not re.match(r'^\d+$', str(r)):
                    continue
                g = int(r)
                m = {'>': g + 1, '>=': g, '==': g}.get(op)
                if op == '!=' and g == 0:
                    m = 1
                if m is not None:
                    lo = m if lo is None else max(lo, m)
                    why.append('%s %s' % (op, r))
            if lo is None:
                continue
            n_sites += 1
            inst = '%s(%d) in %s' % (nm, k, f.qname.split('::')[-1])
            if lo > k:
                res.ok(rule_name, inst, f.loc(c['id']), 'guarded by %s %s' % (size, ' and '.join(why)), function=f.sig, expr='%s(%d)@%d' % (nm, k, c['id']), nontrivial=False)
            else:
                res.viol(rule_name, inst, f.loc(c['id']), 'the guard %s %s admits a container of %d element(s), for which %s(%d) throws std::out_of_range: a state the guard let through is refused' %
                         (size, ' and '.join(why), lo, nm, k), function=f.sig, expr='%s(%d)' % (nm, k))
    return n_sites
