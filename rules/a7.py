"""A7 — finite-model evaluation of guards and loop-free regions.

A *model* assigns small concrete values to canonical atoms (container sizes, indices, rates).  The
condition trees of the code are evaluated on the model with C++ semantics (unsigned wrap-around,
float->integer truncation, short-circuit), and the CFG is followed from a start vertex with every
branch decided by its condition.  The sequence of events met is the row's outcome; it is compared
with the documented decision table.  No library function is executed: calls are atoms."""
import re
import struct
from facts import eval_bool, CAST_KINDS
from paths import Renderer

U64 = (1 << 64) - 1


class Unknown(Exception):
    pass


class OutOfRange(Exception):
    """the walked path reads element k of a container the model gives fewer than k+1 elements"""
    def __init__(self, container, k):
        Exception.__init__(self, '%s[%d]' % (container, k))
        self.container, self.k = container, k


def wrap(v, tc, tw):
    if v is None or isinstance(v, float) or isinstance(v, bool):
        return v
    if tc == 'u' and tw:
        return v & ((1 << tw) - 1)
    if tc == 's' and tw:
        v &= (1 << tw) - 1
        if v >= 1 << (tw - 1):
            v -= 1 << tw
        return v
    return v


INT_TYPES = {'unsigned long': ('u', 64), 'size_t': ('u', 64), 'unsigned int': ('u', 32), 'unsigned': ('u', 32), 'int': ('s', 32), 'long': ('s', 64), 'short': ('s', 16),
             'unsigned short': ('u', 16), 'char': ('s', 8), 'unsigned char': ('u', 8), 'signed char': ('s', 8), 'long long': ('s', 64), 'unsigned long long': ('u', 64)}


def cast_value(cast_text, v):
    """value v seen through the C-style rendering of a cast `(type)`: float -> integer truncates, integers wrap"""
    t = cast_text.strip()[1:-1].strip() if cast_text.strip().startswith('(') else ''
    if v is None or isinstance(v, (str, tuple)):
        return v
    if t in INT_TYPES:
        tc, tw = INT_TYPES[t]
        if isinstance(v, float):
            if v != v or v in (float('inf'), float('-inf')):
                return None
            v = int(v)
        if isinstance(v, bool):
            v = int(v)
        return wrap(v, tc, tw)
    if t in ('float', 'double'):
        try:
            v = float(v)
        except (TypeError, ValueError):
            return None
        if t == 'float':
            return struct.unpack('f', struct.pack('f', v))[0]
        return v
    if t == 'bool':
        return bool(v)
    return v


class Evaluator:
    def __init__(self, fn, model, depth=0):
        self.fn = fn
        self.R = Renderer(fn)
        self.model = model
        self.used = set()
        self.unknown = {}   # rendering -> type class of leaves that could not be evaluated
        self.depth = depth

    def atom(self, i):
        r = self.R.render(i)
        if r.endswith('.size') and ('strempty:' + r[:-5]) in self.model:
            self.used.add('strempty:' + r[:-5])
            return 0 if self.model['strempty:' + r[:-5]] else 1
        if r in self.model:
            self.used.add(r)
            return self.model[r]
        # strip a leading cast in the rendering
        r2 = re.sub(r'^\((?:unsigned |signed )?\w[\w ]*\)(?=[\w(])', '', r)
        if r2 in self.model:
            self.used.add(r2)
            return cast_value(r[:len(r) - len(r2)], self.model[r2])
        # indexed atoms: loop counters tracked along the walk are substituted by their current value,
        # positional accessors are read as subscripts of their container ('#alias' in the model)
        if 'local:' in r2 or self.model.get('#alias'):
            r3 = re.sub(r'\(unsigned long\)(?=local:)', '', r2)
            r3 = re.sub(r'local:(\w+)', lambda m: str(self.model['local:' + m.group(1)]) if isinstance(self.model.get('local:' + m.group(1)), int) and
                        not isinstance(self.model.get('local:' + m.group(1)), bool) else m.group(0), r3)
            for _ in range(3):
                r3 = re.sub(r'\((\d+) ([-+]) (\d+)\)', lambda m: str(int(m.group(1)) + int(m.group(3)) if m.group(2) == '+' else int(m.group(1)) - int(m.group(3))), r3)
            for acc, cont in (self.model.get('#alias') or {}).items():
                r3 = re.sub(r'\.%s\((\d+)\)' % re.escape(acc), lambda m: '.%s[%s]' % (cont, m.group(1)), r3)
            if r3 != r2:
                for m in re.finditer(r'([\w.\[\]]+?)\[(\d+)\]', r3):
                    sz = self.model.get(m.group(1) + '.size')
                    if sz is not None and int(m.group(2)) >= sz:
                        raise OutOfRange(m.group(1), int(m.group(2)))
                if r3 in self.model:
                    self.used.add(r3)
                    return self.model[r3]
        return None

    def ev(self, i):
        fn = self.fn
        i = fn.strip(i)
        n = fn.nodes[i]
        k = n['k']
        a = self.atom(i)
        if a is not None and k not in CAST_KINDS:
            return a
        if 'cv' in n and (k != 'DeclRefExpr' or n['decl'].get('dk') in ('enumconst', 'global')):
            return int(n['cv'])
        if 'cvf' in n and k in ('FloatingLiteral',):
            return float(n['cvf'])
        if k in ('IntegerLiteral',):
            return int(n['v'])
        if k == 'FloatingLiteral':
            return float(n['v'])
        if k == 'CXXBoolLiteralExpr':
            return bool(n['v'])
        if k in ('CXXNullPtrLiteralExpr', 'GNUNullExpr'):
            return 0
        if k in CAST_KINDS:
            v = self.ev(n['ch'][0])
            if v is None:
                return self.atom(i)
            ck = n.get('ck')
            if ck == 'FloatingToIntegral':
                return wrap(int(v), n.get('tc'), n.get('tw'))
            if ck == 'IntegralToFloating':
                return float(v)
            if ck == 'FloatingCast':
                if n.get('tw') == 32:
                    return struct.unpack('f', struct.pack('f', float(v)))[0]
                return float(v)
            if ck in ('IntegralToBoolean', 'FloatingToBoolean'):
                return v != 0
            if ck == 'IntegralCast':
                if isinstance(v, bool):
                    v = int(v)
                return wrap(v, n.get('tc'), n.get('tw'))
            return v
        if k == 'DeclRefExpr' and n['decl'].get('dk') == 'local':
            sd = self.R.single_def_locals()
            if self.model.get('#fields') and ('local:' + str(n['decl'].get('name'))) in self.model:
                return self.model['local:' + n['decl']['name']]     # members change along the walk: a local keeps the value it had when declared
            if n['decl']['id'] in sd:
                return self.ev(sd[n['decl']['id']]['init'])
            return self.model.get('local:' + n['decl']['name'])
        if k == 'UnaryOperator':
            v = self.ev(n['ch'][0])
            if v is None:
                return None
            if n['op'] == '!':
                return not v
            if n['op'] == '-':
                return wrap(-v, n.get('tc'), n.get('tw'))
            if n['op'] == '+':
                return v
            return None
        if k == 'BinaryOperator':
            op = n['op']
            if op == '&&':
                l = self.ev(n['ch'][0])
                if l is False or (l is not None and not l):
                    return False
                r = self.ev(n['ch'][1])
                if r is not None and not r:
                    return False
                if l is None or r is None:
                    return None
                return True
            if op == '||':
                l = self.ev(n['ch'][0])
                if l is not None and l:
                    return True
                r = self.ev(n['ch'][1])
                if r is not None and r:
                    return True
                if l is None or r is None:
                    return None
                return False
            l = self.ev(n['ch'][0])
            r = self.ev(n['ch'][1])
            if l is None or r is None:
                return None
            if op in ('==', '!=', '<', '<=', '>', '>='):
                if op in ('==', '!='):
                    return (l == r) if op == '==' else (l != r)
                try:
                    return {'<': l < r, '<=': l <= r, '>': l > r, '>=': l >= r}[op]
                except TypeError:
                    return None
            try:
                if op == '+':
                    v = l + r
                elif op == '-':
                    v = l - r
                elif op == '*':
                    v = l * r
                elif op == '/':
                    if r == 0:
                        return None
                    v = l / r if isinstance(l, float) or isinstance(r, float) else int(l / r)
                elif op == '%':
                    if r == 0:
                        return None
                    v = l - int(l / r) * r
                else:
                    return None
            except (OverflowError, ZeroDivisionError):
                return None
            return wrap(v, n.get('tc'), n.get('tw'))
        if k == 'StringLiteral':
            return n.get('v')
        if k == 'CXXMemberCallExpr' and n['callee']['name'] == 'empty' and str(n['callee'].get('classq', '')).startswith('std::') and n.get('obj') is not None and \
                n['callee'].get('classq') != 'std::basic_string':
            sz = self.model.get(self.R.render(n['obj']) + '.size')
            if sz is not None:
                self.used.add(self.R.render(n['obj']) + '.size')
                return sz == 0
        # iterators as (container rendering, position); std range algorithms with a one-parameter lambda
        if k == 'CXXMemberCallExpr' and n['callee']['name'] in ('begin', 'cbegin', 'end', 'cend') and n['callee'].get('classq') == 'std::basic_string' and n.get('obj') is not None:
            sv = self.ev(n['obj'])
            if isinstance(sv, str):
                # a string whose value the model knows: iterator = (value, position)
                return ('sit', sv, 0 if n['callee']['name'] in ('begin', 'cbegin') else len(sv))
        if k == 'CallExpr' and n.get('callee', {}).get('qname') in ('toupper', 'std::toupper', 'tolower', 'std::tolower') and len(fn.call_args(n)) == 1:
            v = self.ev(fn.strip(fn.call_args(n)[0], 'all'))
            if isinstance(v, int) and not isinstance(v, bool) and 0 <= v < 128:
                ch_ = chr(v)
                return ord(ch_.upper() if 'upper' in n['callee']['qname'] else ch_.lower())
            return None
        if k == 'CallExpr' and n.get('callee', {}).get('qname') == 'std::equal' and len(fn.call_args(n)) in (3, 4, 5):
            args = fn.call_args(n)
            lam = fn.nodes[fn.strip(args[-1], 'all')]
            its = args[:-1] if lam['k'] == 'LambdaExpr' else args
            if lam['k'] != 'LambdaExpr':
                lam = None
            vals = [self.ev(fn.strip(a_, 'all')) for a_ in its]
            if len(vals) in (3, 4) and all(isinstance(v_, tuple) and v_[0] == 'sit' for v_ in vals) and vals[0][1] == vals[1][1]:
                s1 = vals[0][1][vals[0][2]:vals[1][2]]
                if len(vals) == 4:
                    s2 = vals[2][1][vals[2][2]:vals[3][2]]
                    if len(s1) != len(s2):
                        return False
                else:
                    # three-iterator form: as many elements of the second range as the first has (a std::string
                    # is followed by its terminating NUL; further out the behaviour is undefined)
                    s2 = (vals[2][1] + '\0')[vals[2][2]:vals[2][2] + len(s1)]
                    if len(s2) < len(s1):
                        return None
                if lam is None:
                    return s1 == s2
                own = {p_['id'] for p_ in fn.params}
                refs = {}
                for x in fn.descendants(lam['id']):
                    m_ = fn.nodes[x]
                    if m_['k'] == 'DeclRefExpr' and m_['decl'].get('dk') == 'param' and m_['decl']['id'] not in own:
                        refs.setdefault(m_['decl']['id'], x)
                body = [x for x in lam['ch'] if fn.nodes[x]['k'] == 'CompoundStmt']
                stmts = [fn.nodes[x] for x in fn.nodes[body[0]]['ch']] if len(body) == 1 else []
                if len(refs) == 2 and len(stmts) == 1 and stmts[0]['k'] == 'ReturnStmt' and stmts[0]['ch']:
                    ka, kb = [self.R.render(refs[d_]) for d_ in sorted(refs)]
                    saved = (self.model.get(ka), self.model.get(kb))
                    try:
                        for ca, cb in zip(s1, s2):
                            self.model[ka], self.model[kb] = ord(ca), ord(cb)
                            v = self.ev(stmts[0]['ch'][0])
                            if v is None:
                                return None
                            if not v:
                                return False
                        return True
                    finally:
                        for kk_, sv_ in zip((ka, kb), saved):
                            if sv_ is None:
                                self.model.pop(kk_, None)
                            else:
                                self.model[kk_] = sv_
            return None
        if k == 'CXXMemberCallExpr' and n['callee']['name'] in ('begin', 'cbegin', 'end', 'cend') and n['callee'].get('classq', '').startswith('std::') and n.get('obj') is not None:
            c_ = self.R.render(n['obj'])
            if n['callee']['name'] in ('begin', 'cbegin'):
                return ('it', c_, 0)
            sz = self.model.get(c_ + '.size')
            if sz is None:
                self.unknown[c_ + '.size'] = 'u'
                return None
            self.used.add(c_ + '.size')
            return ('it', c_, sz)
        if k == 'CallExpr' and n.get('callee', {}).get('qname') == 'std::distance' and len(fn.call_args(n)) == 2:
            a, b = self.ev(fn.strip(fn.call_args(n)[0], 'all')), self.ev(fn.strip(fn.call_args(n)[1], 'all'))
            if isinstance(a, tuple) and isinstance(b, tuple) and a[1] == b[1]:
                return b[2] - a[2]
            return None
        if k == 'CallExpr' and n.get('callee', {}).get('qname') in ('std::find', 'std::count') and len(fn.call_args(n)) == 3:
            # over a modelled container: elements are the model entries  <container>[k]
            args = fn.call_args(n)
            b, e = self.ev(fn.strip(args[0], 'all')), self.ev(fn.strip(args[1], 'all'))
            val = self.ev(fn.strip(args[2], 'all'))
            if isinstance(b, tuple) and isinstance(e, tuple) and b[0] == 'it' and e[0] == 'it' and b[1] == e[1] and val is not None:
                hits = []
                for kk in range(b[2], e[2]):
                    el = self.model.get('%s[%d]' % (b[1], kk))
                    if el is None:
                        self.unknown['%s[%d]' % (b[1], kk)] = 'o'
                        return None
                    self.used.add('%s[%d]' % (b[1], kk))
                    if el == val:
                        hits.append(kk)
                if n['callee']['qname'] == 'std::count':
                    return len(hits)
                return ('it', b[1], hits[0]) if hits else e
            return None
        if k == 'CallExpr' and n.get('callee', {}).get('qname') in ('std::find_if', 'std::find_if_not', 'std::any_of', 'std::all_of', 'std::none_of', 'std::count_if'):
            from paths import lambda_params
            lp = [v for v in lambda_params(fn).values() if v[2] == n['id']]
            args = fn.call_args(n)
            if len(lp) == 1 and len(args) == 3:
                b, e = self.ev(fn.strip(args[0], 'all')), self.ev(fn.strip(args[1], 'all'))
                body = fn.nodes[lp[0][4]]
                stmts = [fn.nodes[x] for x in body['ch']]
                if isinstance(b, tuple) and isinstance(e, tuple) and b[1] == e[1] and len(stmts) == 1 and stmts[0]['k'] == 'ReturnStmt' and stmts[0]['ch']:
                    key = 'local:' + lp[0][1]
                    saved = self.model.get(key)
                    vals = []
                    try:
                        for kk in range(b[2], e[2]):
                            self.model[key] = kk
                            v = self.ev(stmts[0]['ch'][0])
                            if v is None:
                                return None
                            vals.append(bool(v))
                    finally:
                        if saved is None:
                            self.model.pop(key, None)
                        else:
                            self.model[key] = saved
                    q = n['callee']['qname']
                    if q == 'std::find_if':
                        return ('it', b[1], b[2] + vals.index(True)) if True in vals else e
                    if q == 'std::find_if_not':
                        return ('it', b[1], b[2] + vals.index(False)) if False in vals else e
                    if q == 'std::any_of':
                        return any(vals)
                    if q == 'std::all_of':
                        return all(vals)
                    if q == 'std::none_of':
                        return not any(vals)
                    if q == 'std::count_if':
                        return sum(vals)
            return None
        if k == 'CXXOperatorCallExpr' and n.get('op') == '-' and len(n.get('args', [])) == 2:
            a, b = self.ev(n['args'][0]), self.ev(n['args'][1])
            if isinstance(a, tuple) and isinstance(b, tuple) and a[1] == b[1]:
                return a[2] - b[2]
        if k == 'CXXConstructExpr' and len(n.get('args', [])) == 1 and (n['callee'].get('copy') or n['callee'].get('move')):
            return self.ev(n['args'][0])
        if k == 'CallExpr' and n.get('callee', {}).get('qname') in ('abs', 'std::abs', 'labs', 'std::labs', 'llabs', 'fabs', 'std::fabs') and len(n.get('args', [])) == 1:
            v = self.ev(n['args'][0])
            if isinstance(v, (int, float)) and not isinstance(v, bool):
                return abs(v)
            return None
        if k == 'CallExpr' and n.get('callee', {}).get('qname') == 'ezc3d::toUpper' and len(n.get('args', [])) == 1:
            v = self.ev(n['args'][0])
            return v.upper() if isinstance(v, str) else None
        if k == 'CXXMemberCallExpr' and n['callee'].get('classq') == 'std::basic_string' and n['callee']['name'] == 'compare' and len(n.get('args', [])) == 1 and n.get('obj') is not None:
            l, r = self.ev(n['obj']), self.ev(n['args'][0])
            if isinstance(l, str) and isinstance(r, str):
                return (l > r) - (l < r)
        # emptiness of a string, however it is spelled: s.compare("") / s == "" / s.empty() / s.size()
        if k == 'CXXMemberCallExpr' and n['callee'].get('classq') == 'std::basic_string' and n.get('obj') is not None:
            key = 'strempty:' + self.R.render(n['obj'])
            if key in self.model:
                self.used.add(key)
                nm = n['callee']['name']
                if nm == 'compare' and len(n.get('args', [])) == 1 and self.R.render(n['args'][0]) == '""':
                    return 0 if self.model[key] else 1
                if nm == 'empty':
                    return bool(self.model[key])
                if nm in ('size', 'length'):
                    return 0 if self.model[key] else 1
        if k in ('CXXOperatorCallExpr', 'CallExpr') and n.get('callee', {}).get('name') in ('operator==', 'operator!=') and len(n.get('args', [])) == 2:
            rs = [self.R.render(a) for a in n['args']]
            if '""' in rs:
                other = rs[0] if rs[1] == '""' else rs[1]
                key = 'strempty:' + other
                if key in self.model:
                    self.used.add(key)
                    e = bool(self.model[key])
                    return e if n['callee']['name'] == 'operator==' else (not e)
        if k == 'CXXOperatorCallExpr' and n.get('op') in ('==', '!=') and len(n.get('args', [])) == 2:
            l, r = self.ev(n['args'][0]), self.ev(n['args'][1])
            if l is None or r is None:
                return None
            return (l == r) if n['op'] == '==' else (l != r)
        if k == 'ConditionalOperator':
            c = self.ev(n['cond'])
            if c is None:
                return None
            return self.ev(n['lhs'] if c else n['rhs'])
        if k in ('CallExpr', 'CXXMemberCallExpr') and ('#ret:%d' % i) in self.model:
            return self.model['#ret:%d' % i]     # the value a member walked before (with its effects recorded) handed back
        if k in ('CallExpr', 'CXXMemberCallExpr') and n.get('callee', {}).get('inrepo') and self.depth < 3:
            # a file-local helper without effects that computes a value: evaluate it on the translated model
            cf = fn.prog.funcs.get(n['callee']['usr'])
            own_pred = cf is not None and cf.body is not None and not cf.implicit and cf.cls and cf.cls == fn.cls and cf.usr != fn.usr and (cf.rec.get('const') or cf.rec.get('static')) and \
                (n['k'] == 'CallExpr' or (n.get('obj') is not None and self.R.render(n['obj']) in ('this', '*(this)')))
            if cf is not None and (cf.rec.get('internal') or '(anonymous namespace)' in cf.qname or is_own_lookup(fn, n, cf) or own_pred) and cf.body is not None and cf.rec.get('ret') != 'void':
                try:
                    import effects as FX
                    pure = not [e for e in FX.get(fn.prog).events_of(cf) if e[1] != 'local' and e[3] != 'io']
                except Exception:
                    pure = False
                if pure:
                    st = {}
                    if self.model.get('#library_lookups'):
                        st['library_lookups'] = True      # the caller's walk models the library's look-ups: so does the helper's
                    m2 = translate_model(fn, self, n, cf, self.model)
                    if self.model.get('#library_lookups'):
                        m2['#library_lookups'] = True
                    _, end2, und2 = walk(cf, m2, follow_loops=True, max_steps=2000, state=st, _depth=self.depth + 1)
                    if st.get('lookup_unread'):
                        self.unknown['helper %s: look-up %s' % (cf.name, st['lookup_unread'])] = 'o'
                        return None
                    if end2 == 'NEXIT' and st.get('ret') is not None:
                        return st['ret']
                    if end2.startswith('undecided') and und2:
                        # what the helper could not evaluate, in this function's terms (so that the caller may treat it as a free quantity)
                        roots = []
                        if fn.call_obj(n) is not None:
                            roots.append(('this', re.sub(r'^\*\((.*)\)$', r'\1', self.R.render(fn.call_obj(n)))))
                        for j_, a_ in enumerate(fn.call_args(n)):
                            roots.append(('arg%d' % j_, re.sub(r'^\*\((.*)\)$', r'\1', self.R.render(a_))))
                        tr = 0
                        for _nid, unk in und2:
                            for atom_, tc_ in unk.items():
                                for t_, r_ in roots:
                                    if atom_ == t_ or atom_.startswith(t_ + '.') or atom_.startswith(t_ + '['):
                                        self.unknown[r_ + atom_[len(t_):]] = tc_
                                        tr += 1
                                        break
                        if tr:
                            return None
        if k in ('CXXMemberCallExpr', 'MemberExpr', 'CXXOperatorCallExpr', 'CallExpr', 'ArraySubscriptExpr'):
            self.unknown[self.R.render(i)] = n.get('tc')
        return None


def store_action(fn, ev, n, cont):
    """n is an append to container `cont` -> ('append', argument) ; or a subscript of it that is
    written through (assigned / object of a non-const call) -> ('at', evaluated index)"""
    R = ev.R
    if n['k'] == 'CXXMemberCallExpr' and n['callee']['name'] in ('push_back', 'emplace_back') and n.get('obj') is not None and R.render(n['obj']) == cont:
        return ('append', R.render(n['args'][0]) if n.get('args') else '')
    if n['k'] == 'CXXMemberCallExpr' and n['callee']['name'] in ('insert', 'erase', 'resize', 'clear', 'pop_back', 'assign') and n.get('obj') is not None and R.render(n['obj']) == cont:
        return (n['callee']['name'], '')
    if n['k'] == 'CXXOperatorCallExpr' and n.get('op') == '=' and n.get('args') and R.render(n['args'][0]) == cont:
        return ('assign-all', '')
    if n['k'] == 'CXXOperatorCallExpr' and n.get('op') == '=' and n.get('args'):
        l = fn.nodes[fn.strip(n['args'][0], 'all')]
        if l['k'] == 'CXXOperatorCallExpr' and l.get('op') == '*' and len(l.get('args', [])) == 1:
            v = ev.ev(l['args'][0])
            if isinstance(v, tuple) and v[0] == 'it' and v[1] == cont:
                return ('at', v[2])
    # written through a local reference bound to an element (tracked at its declaration)
    tgt = None
    if n['k'] == 'CXXMemberCallExpr' and not n['callee'].get('const') and n.get('obj') is not None:
        tgt = n['obj']
    elif n['k'] == 'CXXOperatorCallExpr' and n.get('op') in ('=', '+=') and n.get('args'):
        tgt = n['args'][0]
    if tgt is not None:
        t_ = fn.nodes[fn.strip(tgt, 'all')]
        while t_['k'] == 'MemberExpr' and t_['ch']:
            t_ = fn.nodes[fn.strip(t_['ch'][0], 'all')]
        if t_['k'] == 'DeclRefExpr' and t_['decl'].get('dk') == 'local' and t_['decl'].get('isref'):
            rf = ev.model.get('ref:' + t_['decl']['name'])
            if rf is not None and rf[0] == cont:
                return ('at', rf[1])
    sub = None
    if n['k'] == 'CXXOperatorCallExpr' and n.get('op') == '[]' and R.render(n['args'][0]) == cont:
        sub = n['args'][1]
    elif n['k'] == 'CXXMemberCallExpr' and n['callee']['name'] == 'at' and n.get('obj') is not None and R.render(n['obj']) == cont and not n['callee'].get('const'):
        sub = n['args'][0]
    if sub is None:
        return None
    cur = n['id']
    for p in fn.ancestors(n['id']):
        pn = fn.nodes[p]
        if pn['k'] in ('ParenExpr', 'ImplicitCastExpr', 'ExprWithCleanups', 'MaterializeTemporaryExpr', 'CXXBindTemporaryExpr') or \
                (pn['k'] == 'MemberExpr' and pn['ch'] and fn.strip(pn['ch'][0], 'all') == fn.strip(cur, 'all')):
            cur = p
            continue
        written = False
        me = fn.strip(cur, 'all')
        if pn['k'] == 'CXXOperatorCallExpr' and pn.get('op') in ('=', '+=') and fn.strip(pn['args'][0], 'all') == me:
            written = True
        elif pn['k'] == 'CXXMemberCallExpr' and not pn['callee'].get('const') and pn.get('obj') is not None and fn.strip(pn['obj'], 'all') in (me, n['id']):
            written = True
        elif pn['k'] in ('BinaryOperator', 'CompoundAssignOperator') and pn.get('op', '=') in ('=', '+=', '-=') and fn.strip(pn['ch'][0], 'all') == me:
            written = True
        if written:
            return ('at', ev.ev(sub))
        return None
    return None


def is_throwing_helper(cf):
    """a function the walker looks into instead of treating its call as an atom: it has explicit
    throws and is not part of the public interface (file-local, or a non-public method), so its
    guards are the caller's guards written elsewhere"""
    if cf is None or cf.implicit or cf.body is None or cf.kind in ('ctor', 'dtor'):
        return False
    if not any(n['k'] == 'CXXThrowExpr' for n in cf.nodes):
        return False
    if cf.rec.get('internal') or '(anonymous namespace)' in cf.qname:
        return True
    return False


def is_own_lookup(fn, n, cf):
    """a const member function of the same class called on *this that may throw (pointIdx, parameterIdx):
    its outcome is part of the caller's decision"""
    if cf is None or cf.implicit or cf.body is None or cf.cls != fn.cls or n['k'] != 'CXXMemberCallExpr' or cf.usr == fn.usr:
        return False
    if not any(x['k'] == 'CXXThrowExpr' for x in cf.nodes) and not any(x['k'] == 'CXXMemberCallExpr' and x['callee']['name'] == 'at' for x in cf.nodes):
        try:
            import maythrow as MT
            if not MT.get(fn.prog).summary.get(cf.usr):
                return False
        except Exception:
            return False
    if not cf.rec.get('const'):
        # a non-const twin (point_nonConst): only when it has no effect on the object
        try:
            import effects as FX
            if [e for e in FX.get(fn.prog).events_of(cf) if e[1] == 'this' and e[3] != 'io']:
                return False
        except Exception:
            return False
    o = fn.nodes[fn.strip(n.get('obj', -1), 'all')] if n.get('obj') is not None else None
    for _ in range(6):
        if o is None:
            break
        if o['k'] == 'UnaryOperator' and o['op'] == '*' and o['ch']:
            o = fn.nodes[fn.strip(o['ch'][0], 'all')]
        elif o['k'] == 'DeclRefExpr' and o['decl'].get('dk') == 'local' and o['decl'].get('isref'):
            from paths import local_init
            ini = local_init(fn, o['decl']['id'])
            o = fn.nodes[fn.strip(ini, 'all')] if ini is not None else None
        else:
            break
    return o is not None and o['k'] == 'CXXThisExpr'


def is_library_lookup(fn, n, cf):
    """a const member function of a library class that has no effect and may throw by itself (a name / position look-up)"""
    if cf is None or cf.implicit or cf.body is None or not cf.rec.get('const') or n.get('obj') is None or not str(cf.cls or '').startswith('ezc3d::'):
        return False
    if not any(x['k'] == 'CXXThrowExpr' for x in cf.nodes):
        return False
    try:
        import effects as FX
        if [e for e in FX.get(fn.prog).events_of(cf) if e[1] != 'local' and e[3] != 'io']:
            return False
    except Exception:
        return False
    return True


def translate_model(fn, ev, n, cf, model):
    """the caller's model in the callee's terms: atoms rooted at an actual argument / the object
    become atoms rooted at argN / this; scalar arguments are evaluated"""
    R = ev.R
    m2 = {}
    roots = []
    obj = fn.call_obj(n)
    if obj is not None:
        ro = re.sub(r'^\*\((.*)\)$', r'\1', R.render(obj))
        roots.append((ro, 'this'))
    for i, a in enumerate(fn.call_args(n)):
        r = R.render(a)
        r = re.sub(r'^\*\((.*)\)$', r'\1', r)
        roots.append((r, 'arg%d' % i))
        v = None
        try:
            v = ev.ev(a)
        except OutOfRange:
            v = None
        if v is not None and i < len(cf.params) and not isinstance(v, str) and cf.params[i].get('tc') not in ('o', 'p'):
            m2['arg%d' % i] = wrap(v, cf.params[i].get('tc'), cf.params[i].get('tw')) if not isinstance(v, float) else v
        elif isinstance(v, str):
            m2['arg%d' % i] = v
    for k, v in model.items():
        if k.startswith('#'):
            m2[k] = v
            continue
        pre = ''
        kk = k
        for p_ in ('strempty:',):
            if kk.startswith(p_):
                pre, kk = p_, kk[len(p_):]
        hit = False
        for r, t in roots:
            if kk == r or kk.startswith(r + '.') or kk.startswith(r + '['):
                m2[pre + t + kk[len(r):]] = v
                hit = True
        if not hit and ('this', 'this') in roots and re.search(r'\bthis\b', kk):
            m2[pre + kk] = v      # the same object: an atom that mentions it inside a larger expression keeps its spelling
    # string literals handed in as arguments (a group / parameter name): the callee spells them argN inside its look-ups
    lits = [(r, t) for r, t in roots if re.match(r'^"[^"]*"$', r)]
    if lits:
        for k, v in list(m2.items()):
            k2 = k
            for r, t in lits:
                k2 = k2.replace('(%s)' % r, '(%s)' % t)
            if k2 != k and k2 not in m2:
                m2[k2] = v
    return m2


STD_BASES = {'std::out_of_range': ['std::logic_error', 'std::exception'], 'std::invalid_argument': ['std::logic_error', 'std::exception'],
             'std::length_error': ['std::logic_error', 'std::exception'], 'std::domain_error': ['std::logic_error', 'std::exception'],
             'std::logic_error': ['std::exception'], 'std::range_error': ['std::runtime_error', 'std::exception'],
             'std::overflow_error': ['std::runtime_error', 'std::exception'], 'std::runtime_error': ['std::exception'],
             'std::ios_base::failure': ['std::system_error', 'std::runtime_error', 'std::exception'], 'std::bad_alloc': ['std::exception']}


def find_handler(fn, g, v, thrown):
    """first vertex of the innermost enclosing handler at vertex v that catches type `thrown`
    (catch by value/reference of the type, one of its bases, or catch (...)); else None"""
    tries = list(g.try_of_vertex.get(v, []))
    # innermost try first: the one with the smallest body containing the vertex's node
    nid = g.node_of(v)
    tries.sort(key=lambda t: len(fn.descendants(fn.nodes[t]['body'])))
    hb = {}
    for b in g.blocks.values():
        if b.get('labelk') == 'CXXCatchStmt' and b.get('label', -1) >= 0:
            hb[b['label']] = b['id']
    for t in tries:
        for h in fn.nodes[t]['handlers']:
            hn = fn.nodes[h]
            ct = (hn.get('catch_t') or '').replace('const ', '').replace(' &', '').strip()
            if hn.get('catch_all') or ct == thrown or ct in STD_BASES.get(thrown, []):
                if h in hb:
                    first = g.block_first(hb[h])
                    if first:
                        return first[0]
                return None
    return None


OWN_POSITIONAL = {'frame': '_frames', 'point': '_points', 'subframe': '_subframe', 'channel': '_channels', 'group': '_groups', 'parameter': '_parameters'}
_checked_cache = {}


def checked_positional(prog, usr):
    """the accessor takes an integer position and reaches the element through vector::at (or throws std::out_of_range itself)"""
    key = (id(prog), usr)
    if key in _checked_cache:
        return _checked_cache[key]
    f = prog.funcs.get(usr)
    ok = False
    if f is not None and f.body is not None and len(f.params) == 1 and f.params[0].get('tc') in ('u', 's'):
        for c in f.calls():
            if c['callee']['name'] == 'at' and c['callee'].get('classq') == 'std::vector':
                ok = True
        for t in f.all_nodes({'CXXThrowExpr'}):
            if t.get('throw_t') == 'std::out_of_range':
                ok = True
    _checked_cache[key] = ok
    return ok


def walk(fn, model, start=None, stop=None, follow_loops=False, max_steps=5000, state=None, _depth=0):
    """follow the event graph from `start` (default ENTRY); every two-way branch is decided by
    evaluating its condition on the model.  Returns (events, end, undecided_conditions) where events
    is the list of node ids met (in order), end in {'NEXIT','XEXIT','throw:<type>@node','stop@node','loop'}"""
    g = fn.events()
    model = dict(model)
    if state is not None and state.get('library_lookups'):
        model['#library_lookups'] = True
    if state is not None and state.get('fields'):
        model['#fields'] = True
    ev = Evaluator(fn, model, depth=_depth)
    if state is not None:
        state['model'] = model
        state['ev'] = ev
    v = start if start is not None else g.ENTRY
    out = []
    seen = set()
    undec = []
    range_visits = {}
    steps = 0
    while True:
        steps += 1
        if steps > max_steps:
            return out, 'loop', undec
        if v == g.NEXIT:
            return out, 'NEXIT', undec
        if v == g.XEXIT:
            return out, 'XEXIT', undec
        if v in seen and not follow_loops:
            return out, 'loop', undec
        seen.add(v)
        nid = g.node_of(v) if isinstance(v, tuple) else None
        if nid is not None:
            n = fn.nodes[nid]
            if stop is not None and stop(n):
                out.append(nid)
                return out, 'stop@%d' % nid, undec
            out.append(nid)
            if n['k'] == 'CXXThrowExpr':
                thrown = n.get('throw_t') if not n.get('rethrow') else model.get('#exception')
                hv = find_handler(fn, g, v, thrown) if thrown else None
                if hv is None:
                    return out, 'throw:%s@%d' % (thrown, nid), undec
                model['#exception'] = thrown
                seen.discard(hv)
                v = hv
                continue
            if n['k'] == 'CXXMemberCallExpr' and n['callee']['name'] == 'at' and n['callee'].get('classq') in ('std::vector', 'std::basic_string', 'std::array') and \
                    n.get('obj') is not None and n.get('args'):
                # bounds-checked access: out_of_range when the model says the index is not below the size
                sz = model.get(ev.R.render(n['obj']) + '.size')
                try:
                    ix = ev.ev(n['args'][0])
                except OutOfRange:
                    ix = None
                if isinstance(sz, int) and isinstance(ix, int) and not isinstance(ix, bool) and ix >= sz:
                    hv = find_handler(fn, g, v, 'std::out_of_range')
                    if hv is None:
                        return out, 'throw:std::out_of_range@%d' % nid, undec
                    model['#exception'] = 'std::out_of_range'
                    seen.discard(hv)
                    v = hv
                    continue
            if n['k'] == 'CXXMemberCallExpr' and n['callee']['name'] in OWN_POSITIONAL and n.get('obj') is not None and len(n.get('args', [])) == 1 and \
                    str(n['callee'].get('class', '')).startswith('ezc3d::') and checked_positional(fn.prog, n['callee'].get('usr')):
                # the library's own positional accessors are bounds-checked: std::out_of_range when the model says
                # the position is not below the size of the container they look into
                sz = model.get('%s.%s.size' % (ev.R.render(n['obj']), OWN_POSITIONAL[n['callee']['name']]))
                try:
                    ix = ev.ev(n['args'][0])
                except OutOfRange:
                    ix = None
                if isinstance(sz, int) and isinstance(ix, int) and not isinstance(ix, bool) and ix >= sz:
                    hv = find_handler(fn, g, v, 'std::out_of_range')
                    if hv is None:
                        return out, 'throw:std::out_of_range@%d' % nid, undec
                    model['#exception'] = 'std::out_of_range'
                    seen.discard(hv)
                    v = hv
                    continue
            if n['k'] == 'CXXMemberCallExpr' and n.get('callee', {}).get('inrepo') and _depth < 2 and state is not None and state.get('library_lookups'):
                # a const, effect-free look-up of another library class (pointIdx on the frame's points ...): when the model
                # knows enough to see it throw, the exception is part of the caller's outcome; otherwise it is assumed to return
                cf = fn.prog.funcs.get(n['callee']['usr'])
                if cf is not None and not is_own_lookup(fn, n, cf) and is_library_lookup(fn, n, cf):
                    try:
                        m2 = translate_model(fn, ev, n, cf, model)
                        _, end2, _u2 = walk(cf, m2, follow_loops=True, max_steps=1500, _depth=_depth + 1)
                    except OutOfRange:
                        end2 = 'undecided'
                    if end2.startswith('throw:'):
                        thrown = end2[6:].split('@')[0]
                        hv = find_handler(fn, g, v, thrown)
                        if hv is None:
                            return out, 'throw:%s@%d' % (thrown, nid), undec
                        model['#exception'] = thrown
                        seen.discard(hv)
                        v = hv
                        continue
                    if end2 != 'NEXIT' and re.match(r'^arg\d', ev.R.render(n['obj'])):
                        state['lookup_unread'] = cf.qname     # a look-up in what the caller handed in that the model cannot follow
            if n['k'] in ('CallExpr', 'CXXMemberCallExpr') and n.get('callee', {}).get('inrepo') and _depth < 3:
                cf = fn.prog.funcs.get(n['callee']['usr'])
                if is_throwing_helper(cf) or is_own_lookup(fn, n, cf):
                    try:
                        m2 = translate_model(fn, ev, n, cf, model)
                        _, end2, und2 = walk(cf, m2, follow_loops=follow_loops, max_steps=max_steps, _depth=_depth + 1)
                    except OutOfRange:
                        raise
                    if end2.startswith('throw:'):
                        thrown = end2[6:].split('@')[0]
                        hv = find_handler(fn, g, v, thrown)
                        if hv is None:
                            return out, 'throw:%s@%d' % (thrown, nid), undec
                        model['#exception'] = thrown
                        seen.discard(hv)
                        v = hv
                        continue
                    if end2.startswith('undecided') or end2 == 'loop':
                        undec.append((nid, {'helper %s' % cf.name: 'o'}))
                        return out, 'undecided@%d' % nid, undec
            if state is not None and state.get('record_calls') and n['k'] == 'CXXMemberCallExpr' and n.get('callee', {}).get('inrepo') and _depth < 2:
                # a member of the same class called on this object (the function was split into members): its calls are ours
                cf = fn.prog.funcs.get(n['callee']['usr'])
                o_ = fn.nodes[fn.strip(n['obj'], 'all')] if n.get('obj') is not None else None
                if cf is not None and cf.body is not None and cf.cls == fn.cls and cf.usr != fn.usr and (o_ is None or o_['k'] == 'CXXThisExpr') and \
                        not is_throwing_helper(cf) and not is_own_lookup(fn, n, cf) and cf.qname not in state.get('no_dive', ()):
                    st2 = {'record_calls': True, 'no_dive': state.get('no_dive', ())}
                    try:
                        m2 = translate_model(fn, ev, n, cf, model)
                        _, end2, und2 = walk(cf, m2, follow_loops=follow_loops, max_steps=max_steps, state=st2, _depth=_depth + 1)
                    except OutOfRange:
                        end2, und2 = 'undecided', []
                    if end2 != 'NEXIT':
                        if end2.startswith('throw:'):
                            thrown = end2[6:].split('@')[0]
                            hv = find_handler(fn, g, v, thrown)
                            if hv is None:
                                return out, 'throw:%s@%d' % (thrown, nid), undec
                            model['#exception'] = thrown
                            seen.discard(hv)
                            v = hv
                            continue
                        undec.append((nid, {'member %s' % cf.name: 'o'}))
                        return out, 'undecided@%d' % nid, undec
                    for nid2, vals2 in st2.get('calls', []):
                        state.setdefault('deep_calls', []).append((cf, nid2, vals2))
                    state.setdefault('deep_calls', []).extend(st2.get('deep_calls', []))
                    if st2.get('ret') is not None:
                        model['#ret:%d' % nid] = st2['ret']
            if state is not None and state.get('fields') and not state.get('record_calls') and n['k'] == 'CXXMemberCallExpr' and n.get('callee', {}).get('inrepo') and _depth < 3:
                # a non-const member of the same class called on this object: its stores are ours
                cf = fn.prog.funcs.get(n['callee']['usr'])
                o_ = fn.nodes[fn.strip(n['obj'], 'all')] if n.get('obj') is not None else None
                if cf is not None and cf.body is not None and cf.cls == fn.cls and cf.usr != fn.usr and (o_ is None or o_['k'] == 'CXXThisExpr') and not n['callee'].get('const'):
                    st2 = {'fields': True}
                    try:
                        m2 = translate_model(fn, ev, n, cf, model)
                        _, end2, und2 = walk(cf, m2, follow_loops=follow_loops, max_steps=max_steps, state=st2, _depth=_depth + 1)
                    except OutOfRange:
                        end2, und2 = 'undecided', []
                    if end2 != 'NEXIT':
                        if end2.startswith('throw:'):
                            return out, end2.split('@')[0] + '@%d' % nid, undec
                        undec.append((nid, {'member %s' % cf.name: 'o'}))
                        return out, 'undecided@%d' % nid, undec
                    for k_, v_ in st2['model'].items():
                        if re.match(r'^this\.\w+$', k_):
                            model[k_] = v_
            if state is not None and state.get('record_calls') and n['k'] == 'CXXMemberCallExpr':
                try:
                    state.setdefault('calls', []).append((nid, [ev.ev(a) for a in n.get('args', [])]))
                except OutOfRange:
                    state.setdefault('calls', []).append((nid, [None for a in n.get('args', [])]))
            if state is not None and state.get('track') and n['k'] in ('CXXMemberCallExpr', 'CXXOperatorCallExpr'):
                act = store_action(fn, ev, n, state['track'])
                if act is not None:
                    state.setdefault('acts', []).append((nid, act))
            if n['k'] == 'ReturnStmt' and state is not None and n['ch']:
                state['ret'] = ev.ev(n['ch'][0])
                state['ret_node'] = nid
            # scalar locals with several definitions (loop counters): tracked along the walk
            if n['k'] == 'DeclStmt':
                for d in n['decls']:
                    if 'init' in d and d.get('isref'):
                        # a reference bound to an element of a container: remember which element
                        e_ = fn.nodes[fn.strip(d['init'], 'all')]
                        cn = ix = None
                        if e_['k'] == 'CXXOperatorCallExpr' and e_.get('op') == '[]' and len(e_.get('args', [])) == 2:
                            cn, ix = e_['args'][0], e_['args'][1]
                        elif e_['k'] == 'CXXMemberCallExpr' and e_['callee']['name'] == 'at' and e_.get('obj') is not None and e_.get('args'):
                            cn, ix = e_['obj'], e_['args'][0]
                        if cn is not None:
                            try:
                                model['ref:' + d['name']] = (ev.R.render(cn), ev.ev(ix))
                            except OutOfRange:
                                raise
                    if 'init' in d and d.get('tc') in ('s', 'u', 'b', 'f') and (d['id'] not in ev.R.single_def_locals() or (state is not None and state.get('fields') and not d.get('isref'))):
                        val = ev.ev(d['init'])
                        model['local:' + d['name']] = wrap(val, d.get('tc'), d.get('tw')) if val is not None else None
                    elif 'init' in d and not d.get('isref') and 'basic_string<char>' in str(d.get('type')) + str(d.get('ctype', '')) and d['id'] not in ev.R.single_def_locals():
                        # a local copy of a string the model names (then possibly trimmed in place, below)
                        try:
                            val = ev.ev(d['init'])
                        except OutOfRange:
                            raise
                        except Exception:
                            val = None
                        model['local:' + d['name']] = val if isinstance(val, str) else None
            elif n['k'] == 'CallExpr' and n.get('callee', {}).get('qname') == 'ezc3d::removeTrailingSpaces' and len(n.get('args', [])) == 1:
                t = fn.nodes[fn.strip(n['args'][0], 'all')]
                if t['k'] == 'DeclRefExpr' and t['decl'].get('dk') == 'local' and isinstance(model.get('local:' + t['decl']['name']), str):
                    model['local:' + t['decl']['name']] = model['local:' + t['decl']['name']].rstrip(' ')
            elif n['k'] == 'UnaryOperator' and n['op'] in ('++', '--'):
                t = fn.nodes[fn.strip(n['ch'][0], 'all')]
                if t['k'] == 'DeclRefExpr' and t['decl'].get('dk') == 'local':
                    key = 'local:' + t['decl']['name']
                    if model.get(key) is not None:
                        model[key] = wrap(model[key] + (1 if n['op'] == '++' else -1), t.get('tc'), t.get('tw'))
            elif n['k'] == 'BinaryOperator' and n['op'] == '=':
                t = fn.nodes[fn.strip(n['ch'][0], 'all')]
                if t['k'] == 'DeclRefExpr' and t['decl'].get('dk') == 'local' and t['decl']['id'] not in ev.R.single_def_locals():
                    model['local:' + t['decl']['name']] = ev.ev(n['ch'][1])
                elif state is not None and state.get('fields') and t['k'] == 'MemberExpr' and re.match(r'^this\.\w+$', ev.R.render(n['ch'][0])):
                    # scalar members of the object, tracked on request (setters walked to their final state)
                    try:
                        val_ = ev.ev(n['ch'][1])
                    except OutOfRange:
                        val_ = None
                    model[ev.R.render(n['ch'][0])] = wrap(val_, t.get('tc'), t.get('tw')) if isinstance(val_, int) and not isinstance(val_, bool) and t.get('tc') in ('s', 'u') else val_
            elif n['k'] == 'CompoundAssignOperator' and state is not None and state.get('fields'):
                t = fn.nodes[fn.strip(n['ch'][0], 'all')]
                if t['k'] == 'MemberExpr' and re.match(r'^this\.\w+$', ev.R.render(n['ch'][0])):
                    model[ev.R.render(n['ch'][0])] = None
        if v in g.branch and g.branch[v]['termk'] == 'CXXForRangeStmt' and len(g.branch[v]['targets']) == 2:
            # range-for: the condition holds once per element of the range
            term = fn.nodes[g.branch[v]['term']]
            n_el = None
            if 'range' in term:
                key = ev.R.render(term['range']) + '.size'
                n_el = model.get(key)
            if n_el is None:
                undec.append((g.branch[v]['cond'], {ev.R.render(term['range']) + '.size' if 'range' in term else '?': 'u'}))
                return out, 'undecided@%d' % g.branch[v]['cond'], undec
            cnt = range_visits.get(g.branch[v]['term'], 0)
            if cnt < n_el:
                range_visits[g.branch[v]['term']] = cnt + 1
                lv = term.get('loopvar') or {}
                if lv.get('name'):
                    model['local:' + lv['name']] = cnt
                seen.discard(v)
                tg = g.branch[v]['targets'][0]
            else:
                tg = g.branch[v]['targets'][1]
            if not tg:
                return out, 'NEXIT', undec
            v = tg[0]
            continue
        if v in g.branch and g.branch[v]['termk'] == 'SwitchStmt' and g.branch[v]['cond'] >= 0:
            ev.unknown.clear()
            val = ev.ev(g.branch[v]['cond'])
            if val is None or isinstance(val, (str, tuple, float)):
                undec.append((g.branch[v]['cond'], dict(ev.unknown)))
                return out, 'undecided@%d' % g.branch[v]['cond'], undec
            br = g.branch[v]
            chosen = None
            default = None
            for tg_, bid in zip(br['targets'], br.get('succ_blocks', [])):
                blk = g.blocks.get(bid) if bid is not None else None
                if blk is None:
                    continue
                if blk.get('labelk') == 'CaseStmt' and blk.get('label', -1) >= 0:
                    cn = fn.nodes[blk['label']]
                    cvs = [fn.nodes[fn.strip(c_, 'all')].get('cv') for c_ in cn['ch'][:1]]
                    if cvs and cvs[0] is not None and int(cvs[0]) == int(val):
                        chosen = tg_
                elif blk.get('labelk') == 'DefaultStmt':
                    default = tg_
            if chosen is None:
                chosen = default if default is not None else br['targets'][-1]
            if not chosen:
                return out, 'NEXIT', undec
            v = chosen[0]
            continue
        if v in g.branch and g.branch[v]['cond'] >= 0 and len(g.branch[v]['targets']) == 2 and not g.branch[v]['tempdtor']:
            ev.unknown.clear()
            val = ev.ev(g.branch[v]['cond'])
            if val is None:
                undec.append((g.branch[v]['cond'], dict(ev.unknown)))
                return out, 'undecided@%d' % g.branch[v]['cond'], undec
            tg = g.branch[v]['targets'][0 if val else 1]
            if not tg:
                return out, 'NEXIT', undec
            v = tg[0]
            continue
        if v in g.branch and g.branch[v]['tempdtor']:
            # both sides re-join; take the first non-handler target
            tg = [t for ts in g.branch[v]['targets'] for t in ts]
            v = tg[0]
            continue
        succ = [s for s in g.succ.get(v, []) if not (isinstance(s, tuple) and g.blocks[s[0]].get('labelk') == 'CXXCatchStmt' and s[1] == 0)]
        if not succ:
            succ = g.succ.get(v, [])
        if not succ:
            return out, 'NEXIT', undec
        v = succ[0]
