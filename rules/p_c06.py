"""C06 — adding a frame appends, replaces or extends exactly as documented (partial claim).

The four indexed setters (Data::frame, Points::point, Analogs::subframe, SubFrame::channel; found by
signature shape) are walked on a finite model of {idx, size, SIZE_MAX} and must match the documented
three-way decision table; their effect sets are confined to their own container.  The column adders
append exactly one value per stored frame (and sub-frame), taken from the same frame / sub-frame /
column of the caller's argument."""
import re
from facts import AnalysisBroken
from result import Result
from paths import Renderer
from loops import normal_for, enclosing_fors
import effects as FX
import a7

SIZE_MAX = (1 << 64) - 1


def vec_elem(t):
    m = re.match(r'^std::vector<(.*)>$', t.strip())
    return m.group(1) if m else None


def find_setters(prog):
    out = []
    for q, c in sorted(prog.classes.items()):
        vecs = {vec_elem(fl['type']): fl['name'] for fl in c['fields'] if vec_elem(fl['type'])}
        for m in c['methods']:
            if m['kind'] != 'method' or m['access'] != 'public' or m['const'] or len(m['params']) != 2 or m['ret'] != 'void':
                continue
            p0, p1 = m['params']
            el = p0['type'].replace('const ', '').replace(' &', '').strip()
            if p1['type'] == 'unsigned long' and p1.get('default_cv') == str(SIZE_MAX) and el in vecs and p0['type'].startswith('const ') and p0['type'].endswith('&'):
                f = prog.funcs.get(m['usr'])
                if f is not None:
                    out.append((f, vecs[el], el))
    return out


def actions(prog, f, cont, events, ev):
    """abstract the events of one walk into container actions"""
    R = Renderer(f)
    acts = []
    C = 'this.' + cont
    E = FX.get(prog)
    evs = {}
    for e in E.events_of(f):
        evs.setdefault(e[0], []).append(e)
    for nid in events:
        n = f.nodes[nid]
        k = n['k']
        if k == 'CXXMemberCallExpr' and f.call_obj(n) is not None:
            o = R.render(f.call_obj(n))
            name = n['callee']['name']
            args = f.call_args(n)
            if o == C and name == 'push_back' and len(args) == 1:
                acts.append(('append', R.render(args[0])))
                continue
            if o == C and name == 'resize':
                if len(args) == 2:
                    acts.append(('resize_fill', ev.ev(args[0]), R.render(args[1])))
                elif len(args) != 1:
                    acts.append(('other', 'resize with a fill value'))
                else:
                    acts.append(('resize', ev.ev(args[0])))
                continue
            if name == 'add' and len(args) == 1:
                m = re.match(r'^%s\[(.*)\]$' % re.escape(C), o)
                if m:
                    idxn = None
                    on = f.nodes[f.strip(f.call_obj(n), 'all')]
                    hops = 0
                    while on['k'] == 'DeclRefExpr' and on['decl'].get('dk') == 'local' and on['decl'].get('isref') and hops < 4:
                        from paths import local_init
                        ini = local_init(f, on['decl']['id'])
                        if ini is None:
                            break
                        on = f.nodes[f.strip(ini, 'all')]
                        hops += 1
                    if on['k'] == 'CXXOperatorCallExpr' and on.get('op') == '[]':
                        idxn = ev.ev(on['args'][1])
                    acts.append(('store', idxn, R.render(args[0])))
                    continue
                if o == C + '.back()':
                    acts.append(('store', 'back', R.render(args[0])))
                    continue
        if (k == 'CXXOperatorCallExpr' and n.get('op') == '=') or (k == 'BinaryOperator' and n['op'] == '='):
            lhs = n['args'][0] if k == 'CXXOperatorCallExpr' else n['ch'][0]
            rhs = n['args'][1] if k == 'CXXOperatorCallExpr' else n['ch'][1]
            l = R.render(lhs)
            if l.startswith(C + '['):
                ln = f.nodes[f.strip(lhs, 'all')]
                hops = 0
                while ln['k'] == 'DeclRefExpr' and ln['decl'].get('dk') == 'local' and ln['decl'].get('isref') and hops < 4:
                    # a local reference to the slot: the element it was bound to
                    from paths import local_init
                    ini = local_init(f, ln['decl']['id'])
                    if ini is None:
                        break
                    ln = f.nodes[f.strip(ini, 'all')]
                    hops += 1
                idxv = ev.ev(ln['args'][1]) if ln['k'] == 'CXXOperatorCallExpr' and ln.get('op') == '[]' else None
                acts.append(('store', idxv, R.render(rhs)))
                continue
        # anything else with an effect on this
        for e in evs.get(nid, []):
            if e[1] == 'this' and not (k == 'CXXOperatorCallExpr' and n.get('op') == '[]') and n['k'] != 'CXXMemberCallExpr':
                acts.append(('other', FX.fmt(e)))
        if k == 'CXXMemberCallExpr' and f.call_obj(n) is not None and not n['callee'].get('const'):
            o = R.render(f.call_obj(n))
            if o.startswith('this') and n['callee']['name'] not in ('operator[]', 'at', 'back', 'front', 'begin', 'end'):
                acts.append(('other', '%s.%s' % (o, n['callee']['name'])))
    return acts


def clone_of_arg0(f, R, rendered):
    """`std::move(local:x)` / `local:x` where x is a default-constructed local whose only mutation is x.add(arg0): stands for arg0"""
    m = re.match(r'^(?:std::move\()?local:(\w+)\)?$', rendered)
    if not m:
        return rendered
    name = m.group(1)
    adds = [c for c in f.calls() if c['callee']['name'] == 'add' and c.get('obj') is not None and f.nodes[f.strip(c['obj'], 'all')].get('decl', {}).get('name') == name]
    muts = [c for c in f.calls() if c.get('obj') is not None and f.nodes[f.strip(c['obj'], 'all')].get('decl', {}).get('name') == name and not c['callee'].get('const') and c['callee']['name'] != 'add']
    if len(adds) == 1 and not muts and len(f.call_args(adds[0])) == 1 and R.render(f.call_args(adds[0])[0]) == 'arg0':
        return 'arg0'
    return rendered


def final_state(acts, size):
    """content of the container after the action list, starting from `size` old elements: list of tokens, or None when an
    action is not one the rule can replay"""
    st = ['old%d' % i for i in range(size)]
    for a in acts:
        if a[0] == 'append':
            st.append(a[1])
        elif a[0] == 'resize' and isinstance(a[1], int):
            if a[1] > 10000:
                return None
            st = st[:a[1]] + ['empty'] * max(0, a[1] - len(st))
        elif a[0] == 'resize_fill' and isinstance(a[1], int):
            if a[1] > 10000:
                return None
            st = st[:a[1]] + [a[2]] * max(0, a[1] - len(st))      # every new position holds a copy of the fill value
        elif a[0] == 'store':
            i = len(st) - 1 if a[1] == 'back' else a[1]
            if not isinstance(i, int):
                return None
            if i < 0 or i >= len(st):
                return ['<store at position %d of a container of %d elements>' % (i, len(st))]      # replayable, and wrong
            st[i] = a[2]
        elif a[0] == 'other' and str(a[1]).endswith('.reserve'):
            continue            # capacity only
        else:
            return None
    return st


def check_setter(prog, res, f, cont, el):
    inst = f.sig.split('(')[0].split('::')[-2] + '::' + f.name
    rows = 0
    bad = []
    unread = []
    # a file-local helper that resizes / hands out the slot: its actions are not tabulated by this rule
    Rq = Renderer(f)
    for c in f.calls():
        cf = prog.funcs.get(c['callee'].get('usr')) if c['callee'].get('inrepo') else None
        if cf is not None and cf.body is not None and (cf.rec.get('internal') or '(anonymous namespace)' in cf.qname) and \
                any(Rq.render(a) == 'this.' + cont for a in f.call_args(c)):
            res.undecided('three-way', inst, f.loc(c['id']), 'the container is handed to the file-local helper %s, whose actions this rule does not tabulate [shape not read by the rule]' % cf.name,
                          function=f.sig, expr='table')
            return
    for size in (0, 1, 2, 3):
        for idx in (0, 1, 2, 3, 5, SIZE_MAX):
            model = {'arg1': idx, 'this.%s.size' % cont: size}
            events, end, undec = a7.walk(f, model)
            rows += 1
            if str(end).startswith('undecided'):
                unread.append('idx=%s size=%d: the walk stops at a statement the rule does not evaluate (%s)' % ('SIZE_MAX' if idx == SIZE_MAX else idx, size, end))
                continue
            if end != 'NEXIT':
                bad.append('idx=%s size=%d: ends in %s' % ('SIZE_MAX' if idx == SIZE_MAX else idx, size, end))
                continue
            ev = a7.Evaluator(f, model)
            acts = actions(prog, f, cont, events, ev)
            Rq2 = Renderer(f)
            acts = [tuple(clone_of_arg0(f, Rq2, x) if isinstance(x, str) and 'local:' in x else x for x in a_) for a_ in acts]
            if idx == SIZE_MAX:
                want = [[('append', 'arg0')], [('resize', size + 1), ('store', 'back', 'arg0')], [('resize', size + 1), ('store', size, 'arg0')]]
                why = 'append'
            elif idx >= size:
                want = [[('resize', idx + 1), ('store', idx, 'arg0')]]
                why = 'extend to idx+1 and store at idx'
            else:
                want = [[('store', idx, 'arg0')]]
                why = 'replace element idx only'
            if acts not in want:
                # another sequence of container operations with the same outcome?  compare the final content
                got_state, want_state = final_state(acts, size), final_state(want[0], size)
                if got_state is None:
                    unread.append('idx=%s size=%d: does %s' % ('SIZE_MAX' if idx == SIZE_MAX else idx, size, acts))
                elif got_state != want_state:
                    bad.append('idx=%s size=%d: does %s; documented: %s (%s)' % ('SIZE_MAX' if idx == SIZE_MAX else idx, size, acts, why, want[0]))
    if bad:
        res.viol('three-way', inst, f.loc(), '; '.join(bad[:3]) + (' ... (%d rows differ)' % len(bad) if len(bad) > 3 else ''), function=f.sig, expr='table',
                 facts={'rows': rows, 'differing': bad}, sure=True)
    elif unread:
        res.undecided('three-way', inst, f.loc(), 'the setter uses container operations whose outcome the rule does not tabulate (%s) [shape not read by the rule]' % unread[0], function=f.sig, expr='table')
    else:
        res.ok('three-way', inst, f.loc(), 'matches the documented append / replace / extend table on %d (idx,size) rows' % rows, function=f.sig, expr='table')
    # effect set confined to the own container
    E = FX.get(prog)
    stray = sorted(FX.fmt(e) for e in E.of(f) if e[0] in ('this', 'static', 'unknown') and not (e[1] and e[1][0] == cont))
    pe = sorted(FX.fmt(e) for e in E.of(f) if e[0].startswith('param:'))
    if stray or pe:
        res.viol('three-way-effects', inst, f.loc(), 'setter also modifies %s' % (stray + pe), function=f.sig, expr='effects')
    else:
        res.ok('three-way-effects', inst, f.loc(), 'only %s is modified' % cont, function=f.sig, expr='effects')
    # no loops: every other element is untouched
    LOOPS = {'ForStmt', 'WhileStmt', 'DoStmt', 'CXXForRangeStmt'}
    loops = [n for n in f.all_nodes(LOOPS)]
    if loops:
        # positive evidence: an element store whose position comes out of the loop (the loop variable, or a local assigned in a loop)
        R = Renderer(f)
        C = 'this.' + cont
        in_loop = set()
        for lp in loops:
            in_loop.update(f.descendants(lp['id']))
        loop_locals = set()
        for nid in in_loop:
            n = f.nodes[nid]
            if n['k'] == 'VarDecl' and n.get('name'):
                loop_locals.add(n['name'])
            if n['k'] == 'BinaryOperator' and n['op'] == '=' or n['k'] in ('UnaryOperator', 'CompoundAssignOperator'):
                t = f.nodes[f.strip(n['ch'][0], 'all')] if n['ch'] else None
                if t is not None and t['k'] == 'DeclRefExpr' and t['decl'].get('dk') == 'local':
                    loop_locals.add(t['decl'].get('name'))
        hit = None
        for n in f.all_nodes({'CXXOperatorCallExpr', 'BinaryOperator'}):
            if not ((n['k'] == 'CXXOperatorCallExpr' and n.get('op') == '=') or (n['k'] == 'BinaryOperator' and n['op'] == '=')):
                continue
            lhs = n['args'][0] if n['k'] == 'CXXOperatorCallExpr' else n['ch'][0]
            l = R.render(lhs)
            if l.startswith(C + '['):
                for m in re.findall(r'local:(\w+)', l[len(C):]):
                    if m in loop_locals:
                        hit = (n['id'], l, m)
        if hit:
            res.viol('three-way-effects', inst + ' loop', f.loc(hit[0]), 'the setter stores into %s, a position found by a loop over the container (%s): an element other than the documented target is replaced' % (hit[1], hit[2]),
                     function=f.sig, expr='loop', sure=True)
        else:
            res.undecided('three-way-effects', inst + ' loop', f.loc(loops[0]['id']), 'the setter contains a loop; which elements it touches is not read by the rule [shape not read by the rule]', function=f.sig, expr='loop')


def column_adder(prog, res, f, kind, rule='column'):
    """kind: 'point' or 'analog'.  Exactly one append site into the stored frames; it appends element
    [f](/[sf])[c] of the argument to stored frame f (/sub-frame sf); the enclosing counted loops
    (index or range-for) run f over every stored frame, sf over every stored sub-frame and c over the
    columns *of the first frame* (so that every frame receives the same number of columns)."""
    from loops import loops_around
    R = Renderer(f)
    inst = 'c3d::%s(frames)' % f.name
    E = r'(?:\.point\(local:(\w+)\)|\._points\[local:(\w+)\])' if kind == 'point' else r'(?:\.channel\(local:(\w+)\)|\._channels\[local:(\w+)\])'
    F = r'(?:arg0\[local:(\w+)\])'
    SF = r'(?:\.subframe\(local:(\w+)\)|\._subframe\[local:(\w+)\])'
    if kind == 'point':
        tgt_re = r'^this\._data\.(?:frame\(local:(\w+)\)|_frames\[local:(\w+)\])\._points$'
        val_re = r'^' + F + r'\._points' + E + '$'
        setter = 'point'
    else:
        tgt_re = r'^this\._data\.(?:frame\(local:(\w+)\)|_frames\[local:(\w+)\])\._analogs' + SF + '$'
        val_re = r'^' + F + r'\._analogs' + SF + E + '$'
        setter = 'channel'
    sites = []
    for n in f.calls():
        if n['callee']['name'] in (setter, 'push_back', 'emplace_back') and not n['callee'].get('const') and f.call_obj(n) is not None:
            o = R.render(f.call_obj(n))
            if o.startswith('this._data'):
                sites.append(n)
    if not sites:
        # the appends may have moved into a helper that is handed the data section
        handed = [c for c in f.calls() if c['callee'].get('inrepo') and c['callee'].get('usr') in prog.funcs and prog.funcs[c['callee']['usr']].body is not None and
                  any(re.match(r'^\*?\(?this\._data\b', R.render(a)) for a in f.call_args(c))]
        if handed:
            res.undecided(rule, inst, f.loc(handed[0]['id']), 'the stored frames are handed to %s; the appends are not in the column adder itself [shape not read by the rule]' % handed[0]['callee']['qname'],
                          function=f.sig, expr='sites')
            return
    if len(sites) != 1:
        (res.viol if not sites else res.undecided)(rule, inst, f.loc(), 'expected exactly one append site into the stored frames, found %d' % len(sites), function=f.sig, expr='sites')
        return
    n = sites[0]
    o = R.render(f.call_obj(n))
    if n['callee']['name'] != setter:
        o = re.sub(r'\._(points|channels)$', '', o)
    args = f.call_args(n)
    explicit = [a for a in args if f.nodes[f.strip(a, 'all')]['k'] != 'CXXDefaultArgExpr']
    mt = re.match(tgt_re, o)
    rv = R.render(explicit[0]) if explicit else ''
    rv = re.sub(r'^copy\((.*)\)$', r'\1', rv)
    mv = re.match(val_re, rv)
    if len(explicit) != 1:
        res.viol(rule, inst, f.loc(n['id']), 'the append %s.%s(%s) passes an index: a column adder appends' % (o, setter, ', '.join(R.render(a) for a in explicit)), function=f.sig, expr='shape')
        return
    if not mt or not mv:
        res.undecided(rule, inst, f.loc(n['id']), 'the append is %s.%s(%s): not a shape the rule reads (stored frame[f] <- argument[f] element c)' %
                      (o, setter, rv), function=f.sig, expr='shape')
        return
    pick = lambda *g: [x for x in g if x][0]
    if kind == 'point':
        g = mt.groups()
        fvar, sfvar = pick(g[0], g[1]), None
        g = mv.groups()
        vf, vsf, vidx = g[0], None, pick(g[1], g[2])
    else:
        g = mt.groups()
        fvar, sfvar = pick(g[0], g[1]), pick(g[2], g[3])
        g = mv.groups()
        vf, vsf, vidx = g[0], pick(g[1], g[2]), pick(g[3], g[4])
    if fvar != vf or sfvar != vsf:
        res.viol(rule, inst, f.loc(n['id']), 'value is taken from frame/sub-frame (%s) but appended to frame/sub-frame (%s)' % ((vf, vsf), (fvar, sfvar)), function=f.sig, expr='same-index')
        return
    la = loops_around(f, n['id'], R)
    part = [l for l in la if l['kind'] == 'partial']
    if part:
        res.viol(rule, inst, f.loc(part[0]['node']), 'the loop over %s %s: it must cover every element from 0' % (part[0]['partial_name'], part[0]['why']), function=f.sig, expr='bounds')
        return
    if any(l['kind'] == 'other' or l['name'] is None for l in la):
        res.undecided(rule, inst, f.loc(n['id']), 'an enclosing loop is not a counted loop over [0, bound)', function=f.sig, expr='normal-form')
        return
    fors = {l['name']: l for l in la}
    need = [fvar, vidx] + ([sfvar] if sfvar else [])
    if set(fors) != set(need):
        res.viol(rule, inst, f.loc(n['id']), 'the append is enclosed by loops over %s; expected exactly loops over %s' % (sorted(fors), sorted(need)), function=f.sig, expr='loops')
        return
    bad = []
    guards = [R.render(i['cond']) for i in f.all_nodes({'IfStmt'}) if any(f.nodes[x]['k'] == 'CXXThrowExpr' for x in f.descendants(i['then']))]
    allg = ' ;; '.join(guards)

    import indexsites as _IS
    known = {(l_, op_, r_) for l_, op_, r_, _x in _IS.facts_at(f, R, n['id'])}

    def refused(a, b):
        if any(('(%s != %s)' % (x, y)) in allg for x, y in ((a, b), (b, a))):
            return True
        # ... or the equality is established through a validating helper (throwing, or reporting a reason that is thrown)
        return (a, '==', b) in known or (b, '==', a) in known
    NP0 = 'arg0[0]._points._points.size'
    NC0 = 'arg0[0]._analogs.subframe(0)._channels.size'
    NC0b = 'arg0[0]._analogs._subframe[0]._channels.size'
    for name, lf in fors.items():
        b = lf['bound']
        if name == fvar:
            if b == 'this._data._frames.size' or (b == 'arg0.size' and refused('arg0.size', 'this._data._frames.size')):
                pass
            else:
                bad.append('frame loop bound is %s: must cover every stored frame' % b)
        elif name == vidx:
            if kind == 'point' and b != NP0:
                bad.append('column loop bound is %s: every frame must receive the same columns (those of the first frame)' % b)
            if kind == 'analog' and b not in (NC0, NC0b):
                bad.append('column loop bound is %s: every sub-frame must receive the same columns (those of the first sub-frame)' % b)
        elif name == sfvar:
            if b == 'this._header._nbAnalogByFrame' or (b in ('arg0[0]._analogs._subframe.size',) and refused(b, 'this._header._nbAnalogByFrame')):
                pass
            else:
                bad.append('sub-frame loop bound is %s: must cover every stored sub-frame' % b)
    g = f.events()
    av = g.vertex_of.get(n['id'])
    late = [t for t in f.all_nodes({'CXXThrowExpr'}) if av is not None and g.vertex_of.get(t['id']) in g.reach([av])]
    if late:
        res.viol(rule, inst + ': every frame or none', f.loc(late[0]['id']),
                 'a throw is reachable after the first append (%s): a request refused at a later frame leaves the earlier frames with the column and the others without' % f.loc(n['id']),
                 function=f.sig, expr='throw-after-append')
    if bad:
        res.viol(rule, inst, f.loc(n['id']), '; '.join(bad), function=f.sig, expr='bounds')
    else:
        res.ok(rule, inst, f.loc(n['id']), 'exactly one append per stored frame%s and new column, value taken from the same frame%s and column of the argument' %
               (('/sub-frame', '/sub-frame') if sfvar else ('', '')), function=f.sig, expr='all')


def column_rules(prog, res, rule='column'):
    for name, kind in (('point', 'point'), ('analog', 'analog')):
        fs = [f for f in prog.fns('ezc3d::c3d::' + name) if len(f.params) == 1 and f.params[0]['type'].startswith('const std::vector<')]
        if len(fs) != 1:
            raise AnalysisBroken('column adder c3d::%s(frames) vanished' % name)
        column_adder(prog, res, fs[0], kind, rule)


def run(prog, tier):
    res = Result('C06', tier,
                 'The indexed setters (discovered by shape `(const T&, size_t = SIZE_MAX)` on a class holding std::vector<T>) are walked over the CFG on '
                 'every row of a finite (idx, size) model with unsigned semantics and the action sequence (append / resize(n) / store at k) is compared '
                 'with the documented append / replace / extend table; effect sets (A3) confine each setter to its own container, no loops; the column '
                 'adders append exactly once per stored frame (and sub-frame) in normal-form loops with matching indices.',
                 assumptions=['no stored frame aliases another (C08 result) so an untouched container element is an untouched frame'],
                 not_decided=['bit-for-bit equality of untouched frames as a run-time observation'])
    setters = find_setters(prog)
    res.minimum('indexed setters', len(setters), 4)
    for f, cont, el in setters:
        check_setter(prog, res, f, cont, el)
    column_rules(prog, res)
    # the frame that is stored is a copy of the one given: the copies are made through the value setters of Point / Channel, which
    # must write their own component only (a setter that also rewrites a sibling makes the copy depend on the order of the calls)
    import setters as _ST
    _ST.exclusive_rule(prog, res, {'ezc3d::DataNS::Points3dNS::Point', 'ezc3d::DataNS::AnalogsNS::Channel'}, 'value-setters')
    import codec_rules as _CR
    _CR.passthrough_index_rule(prog, res)
    # c3d::analog(name) sizes the new column from the header's sub-frame count: it must be the stored one (updater table)
    import p_c05
    p_c05.sync_table_rule(prog, res, rule='column-basis')
    # "every other frame is unchanged" and "exactly one column per frame" need stored frames that
    # share nothing with each other or with the caller: the C08 ownership rule, evaluated here too
    import p_c08
    p_c08.ownership_rules(prog, res, rule_prefix='no-aliasing')
    return res
