"""A3 — effect sets.  For every function the set of (root, path, kind) it may perform on state that
outlives the call: root in {'this', 'param:<k>', 'static', 'unknown'}; path = tuple of field names
and '[]'; kind in {assign, append, resize, erase, insert, free, io, write-through, call:<name>}.
Direct effects come from assignments, ++/--, delete and mutating members of std containers /
strings / streams / smart pointers (closed table); effects of repo callees are translated through
the call's object / reference arguments (returns-alias summaries make accessor chains
transparent) and propagated to a fixpoint."""
from facts import CALL_KINDS, AnalysisBroken
from paths import root_of

STD_MUT = {
    'push_back': 'append', 'emplace_back': 'append', 'append': 'append', 'operator+=': 'append', 'push_front': 'append',
    'pop_back': 'erase', 'erase': 'erase', 'clear': 'erase',
    'resize': 'resize',
    'insert': 'insert', 'emplace': 'insert',
    'assign': 'assign', 'operator=': 'assign', 'swap': 'assign', 'reset': 'assign', 'replace': 'assign',
    'reserve': None, 'shrink_to_fit': None,
    # element/iterator access on a non-const object: no effect by itself
    'operator[]': None, 'at': None, 'back': None, 'front': None, 'begin': None, 'end': None, 'data': None,
    'rbegin': None, 'rend': None, 'operator*': None, 'operator->': None, 'get': None,
    # streams
    'write': 'io', 'put': 'io', 'read': 'io', 'seekg': 'io', 'seekp': 'io', 'tellg': 'io', 'tellp': 'io', 'close': 'io',
    'open': 'io', 'operator<<': 'io', 'operator>>': 'io', 'flush': 'io', 'clear#stream': 'io', 'setstate': 'io',
    'exceptions': 'io', 'getline': 'io', 'get#stream': 'io', 'ignore': 'io', 'rdbuf': 'io', 'str': 'assign', 'precision': 'io', 'width': 'io',
    'sputn': 'io', 'sputc': 'io', 'pubsync': 'io',
}
STREAM_CLASSES = ('std::basic_fstream', 'std::basic_ifstream', 'std::basic_ofstream', 'std::basic_ostream',
                  'std::basic_istream', 'std::basic_iostream', 'std::basic_ios', 'std::ios_base',
                  'std::basic_stringstream', 'std::basic_ostringstream', 'std::basic_istringstream',
                  'std::basic_filebuf', 'std::basic_streambuf')


def _root_key(kind, path):
    """normalise (kind, path) from root_of into (root, path tuple) or None for call-local state"""
    if kind == 'this':
        return 'this', tuple(path)
    if kind == 'param':
        return 'param:' + path[0][1:], tuple(path[1:])
    if kind in ('global', 'staticlocal'):
        return 'static', tuple(path)
    if kind in ('local', 'temp', 'literal', 'param-value'):
        return None
    return 'unknown', tuple(path)


class Effects:
    def __init__(self, prog):
        self.prog = prog
        self.direct = {}     # usr -> list of (node id, root, path, kind)
        self.calls = {}      # usr -> list of (node id, callee usr, binding) for repo callees
        self.summary = {}    # usr -> set of (root, path, kind)
        self.events = {}     # usr -> list of (node id, root, path, kind) incl. call-induced
        for f in prog.funcs.values():
            self._scan(f)
        self._fixpoint()

    def _scan(self, f):
        d = []
        calls = []
        for n in f.nodes:
            k = n['k']
            tgt = None
            kind = None
            if (k == 'BinaryOperator' and n['op'] == '=') or k == 'CompoundAssignOperator':
                tgt, kind = n['ch'][0], 'assign'
            elif k == 'UnaryOperator' and n['op'] in ('++', '--'):
                tgt, kind = n['ch'][0], 'assign'
            elif k == 'CXXDeleteExpr':
                tgt, kind = n['arg'], 'free'
            if tgt is not None:
                rk = _root_key(*root_of(f, tgt))
                if rk is not None:
                    d.append((n['id'], rk[0], rk[1], kind))
                continue
            if k in CALL_KINDS and 'callee' in n:
                c = n['callee']
                obj = f.call_obj(n)
                args = f.call_args(n)
                if c['usr'] in self.prog.funcs:
                    bind = {}
                    if obj is not None:
                        bind['this'] = root_of(f, obj)
                    for i, a in enumerate(args):
                        pts = c.get('ptypes', [])
                        if i < len(pts) and (pts[i].endswith('&') or pts[i].endswith('*')):
                            bind['param:%d' % i] = root_of(f, a)
                    if k in ('CXXConstructExpr', 'CXXTemporaryObjectExpr'):
                        bind['this'] = ('temp', [])
                    calls.append((n['id'], c['usr'], bind))
                    continue
                mk = self.prog.makes(f, n) if k == 'CallExpr' else None
                if mk and mk.get('usr') in self.prog.funcs:
                    # std::make_shared<T>(args): the effects of T's constructor on its arguments
                    bind = {'this': ('temp', [])}
                    tf = self.prog.funcs[mk['usr']]
                    for i, a in enumerate(n.get('args', [])):
                        if i < len(tf.params) and (tf.params[i]['type'].endswith('&') or tf.params[i]['type'].endswith('*')):
                            bind['param:%d' % i] = root_of(f, a)
                    calls.append((n['id'], mk['usr'], bind))
                    continue
                # std / libc callee
                name = c['name']
                cq = c.get('classq', '')
                if obj is not None and k != 'CXXConstructExpr':
                    if c.get('const'):
                        continue
                    if '_iterator' in cq or '_iterator' in c.get('qname', ''):
                        # moving an iterator (++it, it += n, it = other) changes the iterator, not the range it walks
                        continue
                    key = name
                    if cq.startswith(STREAM_CLASSES) and name in ('clear', 'get'):
                        key = name + '#stream'
                    eff = STD_MUT.get(key, 'call:' + name)
                    if eff is None:
                        continue
                    if cq.startswith(STREAM_CLASSES):
                        eff = 'io'
                    rk = _root_key(*root_of(f, obj))
                    if rk is not None:
                        d.append((n['id'], rk[0], rk[1], eff))
                    # x.swap(y) also replaces y
                    if name == 'swap' and args:
                        rk = _root_key(*root_of(f, args[0]))
                        if rk is not None:
                            d.append((n['id'], rk[0], rk[1], 'assign'))
                    # read(buf, n) writes through buf
                    if name == 'read' and args:
                        rk = _root_key(*root_of(f, args[0]))
                        if rk is not None:
                            d.append((n['id'], rk[0], rk[1] + ('[]',), 'write-through'))
                else:
                    # free function / constructor of a std type: arguments passed by non-const
                    # reference or pointer may be written
                    pts = c.get('ptypes', [])
                    for i, a in enumerate(n.get('args', [])):
                        if i < len(pts) and (pts[i].endswith('&') or pts[i].endswith('*')) and not pts[i].startswith('const '):
                            if k in ('CXXConstructExpr', 'CXXTemporaryObjectExpr') and (c.get('move')):
                                kind2 = 'assign'   # moved-from
                            else:
                                kind2 = 'write-through'
                            # a temporary (value returned by a call, e.g. v.begin()) handed over by && is not object state
                            an = f.nodes[f.strip(a, 'noop')]
                            if an['k'] in CALL_KINDS and 'callee' in an and not (an['callee']['ret'].endswith('&') or an['callee']['ret'].endswith('*')):
                                continue
                            rk = _root_key(*root_of(f, a))
                            if rk is not None:
                                d.append((n['id'], rk[0], rk[1], kind2))
        self.direct[f.usr] = d
        self.calls[f.usr] = calls

    def _translate(self, eff, bind):
        root, path, kind = eff
        if root in ('static',):
            return eff
        if root == 'unknown':
            return eff
        b = bind.get(root)
        if b is None:
            if root.startswith('param:'):
                return None     # by-value parameter of the callee: not visible
            return ('unknown', path, kind)
        rk = _root_key(b[0], b[1])
        if rk is None:
            return None
        return (rk[0], rk[1] + path, kind)

    def _fixpoint(self):
        for u in self.prog.funcs:
            self.summary[u] = {(r, p, k) for _, r, p, k in self.direct[u]}
        changed = True
        it = 0
        while changed:
            changed = False
            it += 1
            if it > 50:
                raise AnalysisBroken('effect fixpoint does not converge')
            for u in self.prog.funcs:
                s = self.summary[u]
                for nid, cu, bind in self.calls[u]:
                    for e in self.summary.get(cu, ()):
                        t = self._translate(e, bind)
                        if t is not None:
                            # bound path length to keep the lattice finite (recursion)
                            if len(t[1]) > 12:
                                t = (t[0], t[1][:12], t[2])
                            if t not in s:
                                s.add(t)
                                changed = True
        for u in self.prog.funcs:
            ev = list(self.direct[u])
            for nid, cu, bind in self.calls[u]:
                for e in self.summary.get(cu, ()):
                    t = self._translate(e, bind)
                    if t is not None:
                        ev.append((nid, t[0], t[1][:12], t[2]))
            self.events[u] = ev

    def of(self, f):
        return self.summary[f.usr]

    def events_of(self, f, root=None):
        return [e for e in self.events[f.usr] if root is None or e[1] == root]


_cache = {}


def get(prog):
    if id(prog) not in _cache:
        _cache[id(prog)] = Effects(prog)
    return _cache[id(prog)]


def fmt(e):
    root, path, kind = e[-3:]
    return '%s.%s <- %s' % (root, '.'.join(path), kind)
