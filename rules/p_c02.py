"""C02 — loading a well-formed file yields what the file encodes (reader vs the layout table)."""
from result import Result
import codec_rules as CR


def run(prog, tier):
    res = Result('C02', tier,
                 'The reader\'s I/O sequence is matched against an independent transcription of the C3D layout: header fields by cumulative byte '
                 'offset (width, signedness, destination member, 1-based conversion, leading-zero skipper), seek offsets of the parameter and data '
                 'sections as polynomials, the record grammar of groups and parameters (sign-of-id dispatch, zero-length terminator, chain check, '
                 'type-byte map enumerated, scalar case, recursion scheme of the matrix readers, string re-assembly with trimming), the frame layout '
                 '(x,y,z,residual; sub-frame-major analogs), positional label binding, header reconciliation before the data is read, and copy completeness.',
                 assumptions=['spec/c3d_layout.json transcribes the C3D layout correctly (the PDF in /repo/doc could not be rendered in the sandbox; transcribed from the format definition)',
                              'the scale word is only used through its sign (verified: rule scale-sign-only)'],
                 not_decided=['agreement of decoded values with an independent decoder over generated files (needs execution)',
                              'numeric correctness of the byte assembly (C12 declined clause)', 'vendor quirks beyond the presence and placement of their handlers'])
    so = CR.sign_only_scale(prog)
    if so:
        res.ok('scale-sign-only', 'Header::scaleFactor() uses', 'src/', 'the 4-byte scale is only ever compared with 0 (float-format marker): reading it as a signed int preserves the sign bit',
               function='', expr='scale')
    CR.header_reader_rule(prog, res, int_scale_ok=so)
    CR.parameters_reader_rule(prog, res)
    CR.group_reader_rule(prog, res)
    CR.reader_effects_rule(prog, res)
    CR.parameter_reader_rule(prog, res)
    CR.data_offset_rule(prog, res)
    CR.frame_reader_rule(prog, res)
    CR.label_binding_rule(prog, res)
    CR.load_order_rule(prog, res)
    # the data section is sized from the header after updateHeader() reconciled it with the parameters just read:
    # the reconciliation table is part of what a load depends on
    import p_c05
    p_c05.sync_table_rule(prog, res, rule='load-reconcile')
    CR.reader_refusals_rule(prog, res)
    CR.primitive_read_rule(prog, res)
    CR.numeric_payload_rule(prog, res)
    # every record read from the file is inserted with the library's own replace-or-append: a record must
    # only replace the stored record of exactly its name, otherwise it is appended
    import p_c09
    from result import Result as _R
    tmp = _R('x', tier, '')
    gp = prog.fn(p_c09.G + '::parameter', ptypes=['const ezc3d::ParametersNS::GroupNS::Parameter &'])
    p_c09.replace_or_append(prog, tmp, gp, '_parameters', r'^this\.parameter\(local:%s\)\._name$', 'arg0._name')
    pg = prog.fn(p_c09.PS + '::group', ptypes=['const ezc3d::ParametersNS::GroupNS::Group &'])
    p_c09.replace_or_append(prog, tmp, pg, '_groups', r'^this\.group\(local:%s\)\._name$', 'arg0._name')
    for o in tmp.obs:
        o['rule'] = 'load-insert'
    res.obs.extend(tmp.obs)
    # every sample is exposed with the bits the file holds: REAL values travel as float, by copies only
    CR.float_path_rule(prog, res, 'sample-bits')
    CR.copy_completeness_rule(prog, res)
    # strings are stored trimmed: the trimmer must empty a cell made only of padding
    import p_c11
    p_c11.check_trimmer(prog, res, 'string-trim')
    return res
