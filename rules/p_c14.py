"""C14 — saving is pure, repeatable and writes only defined bytes.

purity       : effect sets (A3) of every function in the save call graph are confined to locals, the
               output stream and out-parameters bound to the caller's locals; no mutable fields, no
               const_cast, no const-bypass accessor, no non-const call on object state
determinism  : no static-storage variable, no clock/random/environment/pid source, no pointer-to-integer
               conversion, no unordered container, no uninitialised local
definedness  : every write(ptr, n) emits bytes of an initialised object at least n bytes wide, or exactly
               the characters of a string
member-init  : every constructor of every class initialises every scalar member"""
import re
from facts import AnalysisBroken, CALL_KINDS
from result import Result
from paths import Renderer, root_of, local_init
import effects as FX
import poly as P
import symlocal
import p_c18 as _c18

STREAMISH = ('std::basic_fstream<char>', 'std::basic_ofstream<char>', 'std::basic_ostream<char>', 'std::fpos<__mbstate_t>')
NONDET = {'time', 'clock', 'rand', 'random', 'srand', 'getenv', 'getpid', 'gettimeofday', 'clock_gettime', 'localtime', 'gmtime',
          'std::time', 'std::clock', 'std::rand', 'std::getenv', 'std::chrono::system_clock::now', 'std::chrono::steady_clock::now',
          'std::chrono::high_resolution_clock::now', 'std::this_thread::get_id', 'std::random_device::operator()', 'tmpnam', 'std::tmpnam',
          'mkstemp', 'getuid', 'gethostname', 'uname', 'pthread_self'}
SCALAR = ('b', 'e', 'f', 's', 'u', 'p')
WRITERS = {'write', 'sputn'}


def is_streamish(t):
    t = t.replace('const ', '').replace(' &', '').strip()
    return t in STREAMISH


def ctor_initialises(prog, f, cls, field):
    """constructor f gives `field` a value on every normal path (member-initialiser, or an
    assignment in the body that dominates the normal exit, or delegation)"""
    for i in f.rec.get('inits', []):
        if i.get('field') == field:
            if i['written']:
                return True
            # implicit default-initialisation of a scalar = indeterminate
        if i.get('delegating'):
            return True
    g = f.events()
    for h, nid, rhs in _c18.field_writes(prog, cls, field):
        if h is f and rhs is not None:
            v = g.vertex_of.get(nid)
            if v is not None and g.NEXIT not in g.reach([g.ENTRY], avoid={v}):
                return True
    # assignment through a setter called unconditionally: effect summary of callee on this.field
    E = FX.get(prog)
    for nid, root, path, kind in E.events_of(f, 'this'):
        if path == (field,) and kind == 'assign':
            v = g.vertex_of.get(nid)
            if v is not None and g.NEXIT not in g.reach([g.ENTRY], avoid={v}):
                return True
    return False


def member_init_rule(prog, res, classes=None):
    n = 0
    for q, c in sorted(prog.classes.items()):
        if classes is not None and q not in classes:
            continue
        scal = [fl for fl in c['fields'] if fl.get('tc') in SCALAR and not fl['has_init']]
        if not scal:
            continue
        ctors = [f for f in prog.funcs.values() if f.cls == q and f.kind == 'ctor' and not (f.implicit and (f.rec.get('copy') or f.rec.get('move')))]
        declared = [m for m in c['methods'] if m['kind'] == 'ctor' and not m['implicit']]
        if not declared:
            # an aggregate: what matters is how its objects are created.  Every object initialised from a braced list
            # (members without an initialiser are value-initialised) is defined; an object declared without initialiser is not
            tag = '%s:%d:' % (c['file'], c['line'])
            uses, bare = 0, None
            piecewise = []
            for h in prog.repo_funcs():
                for dn in h.all_nodes({'DeclStmt'}):
                    for d_ in dn['decls']:
                        t_ = d_.get('type', '')
                        if not ((q and re.search(r'(?<![\w:])%s(?!\w)' % re.escape(q), t_)) or (not q and tag in t_)):
                            continue
                        uses += 1
                        iv = h.nodes[h.strip(d_['init'], 'noop')] if 'init' in d_ else None
                        if iv is None or (iv['k'] == 'CXXConstructExpr' and not iv.get('args') and not iv.get('list_init')):
                            # declared bare and then filled member by member (`T x; x.a = ..; x.b = ..;`)?
                            Rh_ = Renderer(h)
                            assigned_ = set()
                            for an_ in h.all_nodes({'BinaryOperator'}):
                                if an_['op'] == '=':
                                    ml_ = re.match(r'^local:%s\.(\w+)$' % re.escape(d_['name']), Rh_.render(an_['ch'][0]))
                                    if ml_:
                                        assigned_.add(ml_.group(1))
                            if {s_['name'] for s_ in scal} <= assigned_:
                                straight = not any(True for _ in h.all_nodes({'IfStmt', 'ForStmt', 'WhileStmt', 'DoStmt', 'SwitchStmt', 'CXXForRangeStmt', 'ConditionalOperator'}))
                                piecewise.append((h, dn['id'], d_['name'], straight))
                                continue
                            bare = (h, dn['id'], d_['name'])
            # objects with static storage: constant-initialised (a braced table) is defined; static storage without initialiser is zero-initialised
            for s_ in prog.statics.values():
                t_ = s_.get('type', '')
                if (q and re.search(r'(?<![\w:])%s(?!\w)' % re.escape(q), t_)) or (not q and tag in t_):
                    uses += 1
            if bare is None and any(not st_ for _h, _n, _nm, st_ in piecewise):
                h_, n_, nm_, _s = [x for x in piecewise if not x[3]][0]
                res.undecided('member-init', q or 'unnamed aggregate', h_.loc(n_), 'object `%s` is declared without initialiser and its members are assigned one by one in a function with branches: whether every member is '
                              'assigned before it is read is not decided [shape not read by the rule]' % nm_, function=h_.sig, expr=(q or 'aggregate') + ':piecewise')
                continue
            if bare is None and (uses or not q):
                res.ok('member-init', q or 'unnamed aggregate', '%s:%d' % (c['file'].replace(prog.repo + '/', ''), c['line']), 'aggregate without constructors: every object (%d) is created from a braced initialiser list' % uses,
                       function='', expr=(q or 'aggregate') + ':aggregate', nontrivial=False)
                continue
            if bare is not None:
                res.viol('member-init', q or 'unnamed aggregate', bare[0].loc(bare[1]), 'object `%s` of a class with scalar members %s and no constructor is declared without initialiser: its members are indeterminate' %
                         (bare[2], [s_['name'] for s_ in scal]), function=bare[0].sig, expr=(q or 'aggregate') + ':noctor')
                continue
            res.viol('member-init', q, '%s:%d' % (c['file'].replace(prog.repo + '/', ''), c['line']),
                     'class has scalar members %s but no user-provided constructor' % [s['name'] for s in scal], function='', expr=q + ':noctor')
            continue
        for f in ctors:
            if f.implicit or (f.rec.get('defaulted') and (f.rec.get('copy') or f.rec.get('move'))):
                continue      # member-wise copy / move: every member takes the source's value
            for fl in scal:
                n += 1
                if ctor_initialises(prog, f, q, fl['name']):
                    res.ok('member-init', '%s::%s' % (q.split('::')[-1], fl['name']), f.loc(), 'initialised by %s' % f.sig.split('::')[-1], function=f.sig, expr=fl['name'], nontrivial=False)
                else:
                    res.viol('member-init', '%s::%s' % (q.split('::')[-1], fl['name']), f.loc(),
                             'constructor leaves scalar member %s indeterminate' % fl['name'], function=f.sig, expr=fl['name'])
    return n


def length_preserving_toupper(prog):
    """ezc3d::toUpper returns a string of the same length as its argument"""
    try:
        f = prog.fn('ezc3d::toUpper', nparams=1)
    except AnalysisBroken:
        return False, 'ezc3d::toUpper vanished'
    rets = list(f.all_nodes({'ReturnStmt'}))
    if len(rets) != 1:
        return False, 'more than one return'
    rv = f.nodes[f.strip(rets[0]['ch'][0], 'all')]
    if rv['k'] != 'DeclRefExpr' or rv['decl'].get('dk') != 'local':
        return False, 'does not return a local copy'
    vid = rv['decl']['id']
    init = local_init(f, vid)
    if init is None:
        return None, 'the result is built up from an empty string (not a copy that is transformed in place): its length is not read by the rule'
    k, p = root_of(f, init)
    if not (k == 'param' and p == ['#0']):
        if 'arg0' in Renderer(f).render(init):
            return False, 'local is not a copy of the argument'      # built from a part of the argument
        return None, 'the result is not a copy of the argument that is transformed in place: its length is not read by the rule'
    for n in f.calls():
        o = f.call_obj(n)
        if o is None:
            continue
        on = f.nodes[f.strip(o, 'all')]
        if on['k'] == 'DeclRefExpr' and on['decl'].get('id') == vid and on['decl'].get('dk') == 'local':
            if not n['callee'].get('const') and n['callee']['name'] not in ('begin', 'end', 'operator[]', 'at'):
                if n['callee']['name'] in ('reserve', 'shrink_to_fit'):
                    continue
                return (False if n['callee']['name'] in ('erase', 'resize', 'pop_back', 'clear', 'assign', 'replace', 'insert', 'append', 'push_back', 'operator+=') else None), 'calls %s on the copy' % n['callee']['name']
    for n in f.nodes:
        if (n['k'] == 'BinaryOperator' and n['op'] == '=') or n['k'] == 'CompoundAssignOperator' or (n['k'] == 'CXXOperatorCallExpr' and n.get('op') in ('=', '+=')):
            t = n['ch'][0] if n['k'] != 'CXXOperatorCallExpr' else n['args'][0]
            tn = f.nodes[f.strip(t, 'all')]
            if tn['k'] == 'DeclRefExpr' and tn['decl'].get('id') == vid:
                return False, 'reassigns the copy'
    return True, ''


def string_size_atom(f, s, R, toupper_ok):
    """canonical atom for size() of string expression s"""
    sn = f.nodes[f.strip(s, 'all')]
    hops = 0
    while sn['k'] == 'DeclRefExpr' and sn['decl'].get('dk') == 'local' and sn['decl']['id'] in R.single_def_locals() and hops < 4:
        sn = f.nodes[f.strip(local_init(f, sn['decl']['id']), 'all')]
        hops += 1
    if sn['k'] == 'CallExpr' and sn.get('callee', {}).get('qname') == 'ezc3d::toUpper' and toupper_ok:
        return R.render(sn['args'][0]) + '.size'
    if sn['k'] == 'CallExpr' and sn.get('callee', {}).get('qname') == 'ezc3d::toUpper' and toupper_ok is None:
        return '?toUpper:' + R.render(sn['args'][0]) + '.size'      # length of toUpper's result not read (neither shown equal nor shown different)
    return R.render(s) + '.size'


def guard_constant(f, expr, use):
    """expr rendered as atom A is dominated by `A == C` (true branch): -> C"""
    R = Renderer(f)
    g = f.events()
    def uncast(x):
        while True:
            y = re.sub(r'^\((?:unsigned |signed )?\w[\w ]*\)(?=[\w(])', '', x)
            if y == x:
                return x
            x = y
    want = uncast(R.render(expr))
    uv = g.vertex_of.get(use)
    out = None
    for n in f.all_nodes({'IfStmt'}):
        c = f.nodes[f.strip(n['cond'], 'all')]
        if c['k'] == 'BinaryOperator' and c['op'] == '==':
            l, r = R.render(c['ch'][0]), R.render(c['ch'][1])
            for a, b in ((l, r), (r, l)):
                a2 = uncast(a)
                if a2 == want and re.match(r'^-?\d+$', b) and use in f.descendants(n['then']):
                    out = int(b)
        elif c['k'] == 'BinaryOperator' and c['op'] == '||' and use in f.descendants(n['then']):
            # A == C1 || A == C2 ...: the largest of the constants bounds A on the true branch
            parts = []
            st_ = [c]
            okd = True
            while st_:
                x = st_.pop()
                if x['k'] == 'BinaryOperator' and x['op'] == '||':
                    st_.extend(f.nodes[f.strip(k_, 'all')] for k_ in x['ch'])
                elif x['k'] == 'BinaryOperator' and x['op'] == '==':
                    l, r = R.render(x['ch'][0]), R.render(x['ch'][1])
                    hit = [int(b) for a, b in ((l, r), (r, l)) if uncast(a) == want and re.match(r'^-?\d+$', b)]
                    if hit:
                        parts.append(hit[0])
                    else:
                        okd = False
                else:
                    okd = False
            if okd and parts and all(p_ >= 0 for p_ in parts):
                out = max(parts)
    # inside `case K:` groups of a switch on the same expression: the largest label of the group
    for sw in f.all_nodes({'SwitchStmt'}):
        if use not in f.descendants(sw['id']):
            continue
        kids = sw['ch']
        body = [c for c in kids if f.nodes[c]['k'] == 'CompoundStmt']
        cond = [c for c in kids if f.nodes[c]['k'] not in ('CompoundStmt', 'DeclStmt')]
        if not body or not cond or uncast(R.render(cond[0])) != want:
            continue
        labels = []
        found = None
        for c in f.nodes[body[0]]['ch']:
            m = f.nodes[c]
            if m['k'] in ('CaseStmt', 'DefaultStmt'):
                # a new group starts unless the previous statement fell through from labels only
                if labels and labels[-1][1]:
                    labels = []
                cur = m
                grp = []
                while cur['k'] in ('CaseStmt', 'DefaultStmt'):
                    if cur['k'] == 'CaseStmt':
                        grp.append(f.nodes[f.strip(cur['ch'][0], 'all')].get('cv'))
                    else:
                        grp.append(None)
                    nxt = f.nodes[cur['ch'][-1]] if cur['ch'] else None
                    if nxt is None:
                        break
                    cur = nxt
                labels.append((grp, True))
                if use in f.descendants(c):
                    found = [g_ for gl, _ in labels for g_ in gl]
            elif use in f.descendants(c) and labels:
                found = [g_ for gl, _ in labels for g_ in gl]
            if found:
                break
        if found and all(x is not None for x in found):
            out = max(int(x) for x in found)
    return out


def classify_write(prog, f, n, R, toupper_ok):
    """-> (verdict, kind, detail) for one write(ptr, n) call; `c ? p : q` as source is judged branch by branch"""
    args = f.call_args(n)
    if len(args) >= 2:
        m = f.nodes[f.strip(args[0], 'all')]
        if m['k'] == 'ConditionalOperator' and 'lhs' in m and 'rhs' in m:
            rs = [_classify_write(prog, f, n, R, toupper_ok, ptr=m[x]) for x in ('lhs', 'rhs')]
            for v in ('violation', 'undecided'):
                for r_ in rs:
                    if r_[0] == v:
                        return r_
            return rs[0]
    return _classify_write(prog, f, n, R, toupper_ok)


def _classify_write(prog, f, n, R, toupper_ok, ptr=None):
    args = f.call_args(n)
    if len(args) < 2:
        return 'undecided', 'shape', 'write with %d arguments' % len(args)
    ptr, cnt = (args[0] if ptr is None else ptr), args[1]
    try:
        widths = symlocal.expr_values_at(f, cnt, n['id'])
    except symlocal.Undecided as e:
        return 'undecided', 'width', 'cannot evaluate the byte count: %s' % e
    m = f.nodes[f.strip(ptr, 'all')]
    hops = 0
    while m['k'] == 'DeclRefExpr' and m['decl'].get('dk') == 'local' and m['decl'].get('tc') == 'p' and hops < 4:
        if m['decl']['id'] not in R.single_def_locals():
            return 'undecided', 'pointer', 'pointer local with several definitions'
        m = f.nodes[f.strip(local_init(f, m['decl']['id']), 'all')]
        hops += 1
    if m['k'] == 'UnaryOperator' and m['op'] == '&':
        obj = f.nodes[f.strip(m['ch'][0], 'noop')]
        size = obj.get('tw', 0) // 8
        if not size:
            return 'undecided', 'object', 'address of a non-scalar object (%s)' % obj.get('t')
        kind, path = root_of(f, obj['id'])
        # initialised?
        if kind == 'local':
            base = f.nodes[f.strip(obj['id'], 'all')]
            if base['k'] == 'DeclRefExpr' and local_init(f, base['decl']['id']) is None and not definitely_assigned(f, base['decl']['id'], n['id']):
                return 'violation', 'object', 'local `%s` is written to the file before it is assigned' % base['decl']['name']
        for w in widths:
            c = w.get((), 0) if set(w.keys()) <= {()} else None
            if c is None:
                gc = guard_constant(f, cnt, n['id'])
                if gc is None and (f.rec.get('internal') or '(anonymous namespace)' in f.qname) and all(re.match(r'^arg\d+$', a) for mono in w for a in mono):
                    # a file-local helper that takes the byte count as a parameter: the bound is established at its call sites
                    worst = None
                    und = False
                    for g_, cn_ in prog.callers_of(f.usr):
                        Rg = Renderer(g_)
                        tot = 0
                        for mono, co in w.items():
                            term = co
                            for a in mono:
                                k_ = int(a[3:])
                                args_ = g_.call_args(cn_)
                                av = g_.nodes[g_.strip(args_[k_], 'all')].get('cv') if k_ < len(args_) else None
                                if av is None:
                                    und = True
                                    term = None
                                    break
                                term *= int(av)
                            if term is None:
                                break
                            tot += term
                        if und:
                            break
                        if worst is None or tot > worst[0]:
                            worst = (tot, g_.loc(cn_['id']))
                    if und or worst is None:
                        return 'undecided', 'width', 'byte count %s is a parameter of this helper and a call site passes a non-constant' % P.show(w)
                    if worst[0] > size or worst[0] < 0:
                        return 'violation', 'width', '%d bytes are written from an object of %d bytes (call at %s)' % (worst[0], size, worst[1])
                    c = worst[0]
                    gc = c
                if gc is None and any(want_ in Renderer(f).render(i_['cond']) for i_ in f.all_nodes({'IfStmt', 'SwitchStmt'}) if n['id'] in f.descendants(i_['id'])
                                      for want_ in [re.sub(r'^(\((?:unsigned |signed )?\w[\w ]*\))+', '', Renderer(f).render(cnt))] if 'cond' in i_):
                    # the count is tested by an enclosing condition the rule does not read as `count == constant`
                    return 'undecided', 'width', 'byte count %s is tested by an enclosing condition the rule cannot turn into a bound [shape not read by the rule]' % P.show(w)
                if gc is None:
                    return 'violation', 'width', 'byte count %s is not bounded by sizeof(object) = %d' % (P.show(w), size)
                c = gc
            if c > size or c < 0:
                return 'violation', 'width', '%d bytes are written from an object of %d bytes' % (c, size)
        return 'ok', 'object', '%s object of %d bytes, %s bytes written' % (kind, size, '/'.join(P.show(w) for w in widths))
    if m['k'] == 'CXXMemberCallExpr' and m['callee']['name'] == 'data' and m['callee'].get('classq') == 'std::vector':
        import codec
        z = codec.zero_vector(f, m['obj'], R)
        if z is not None:
            own = R.render(m['obj']) + '.size'
            widths = [z if (len(w) == 1 and list(w.items())[0] == ((own,), 1)) else w for w in widths]
            for w in widths:
                if not P.equal(w, z):
                    d = P.diff_const(z, w)
                    if d is None or d < 0:
                        return 'violation', 'zeros', 'byte count %s exceeds the zero buffer of %s bytes' % (P.show(w), P.show(z))
            return 'ok', 'zeros', 'zero-filled buffer of %s bytes' % P.show(z)
    # storage of a member vector of scalars whose size is a verified class invariant
    vm = m
    vobj = None
    if vm['k'] == 'CXXMemberCallExpr' and vm['callee']['name'] == 'data' and vm['callee'].get('classq', '').startswith('std::vector'):
        vobj = vm.get('obj')
    elif vm['k'] == 'UnaryOperator' and vm['op'] == '&':
        e_ = f.nodes[f.strip(vm['ch'][0], 'all')]
        if e_['k'] == 'CXXOperatorCallExpr' and e_.get('op') == '[]' and f.nodes[f.strip(e_['args'][1], 'all')].get('cv') == '0' and \
                f.nodes[f.strip(e_['args'][0], 'noop')].get('t', '').replace('const ', '').startswith('std::vector<'):
            vobj = e_['args'][0]
    if vobj is not None:
        on = f.nodes[f.strip(vobj, 'all')]
        tm = re.match(r'^(?:const )?std::vector<([\w ]+)>$', f.nodes[f.strip(vobj, 'noop')].get('t', ''))
        esz = {'float': 4, 'double': 8, 'char': 1, 'unsigned char': 1, 'short': 2, 'unsigned short': 2, 'int': 4, 'unsigned int': 4}.get(tm.group(1)) if tm else None
        if on['k'] == 'MemberExpr' and on.get('mk') == 'field' and esz:
            import codec_rules as _CR
            K = _CR.vector_size_invariant(prog, on['fclass'], on['member'])
            if K is not None:
                for w in widths:
                    c = w.get((), 0) if set(w.keys()) <= {()} else None
                    if c is None or c > K * esz or c < 0:
                        return 'violation', 'vector', '%s bytes are written from %s, which always holds %d elements of %d bytes' % (P.show(w), on['member'], K, esz)
                return 'ok', 'vector', '%s always holds %d elements of %d bytes (every constructor, nothing resizes it); %s bytes written' % (on['member'], K, esz, '/'.join(P.show(w) for w in widths))
    import codec as _codec
    ga = _codec.Extractor(prog, 'w').gather_analysis(f, R, n, None, 0)
    if ga is not None:
        if ga['verdict'] == 'copy-exact':
            return 'ok', 'gathered', 'local buffer `%s` is an unmodified copy of %s elements; %s' % (ga['local'], ga.get('count'), ga['why'])
        if ga['verdict'] == 'mismatch' and ga.get('copy_of'):
            return 'undecided', 'gathered', 'local buffer `%s`: %s (whether they stay inside the buffer is not decided here)' % (ga['local'], ga['why'])
        if ga['verdict'] == 'exact':
            return 'ok', 'gathered', 'local buffer `%s` filled by appends; %s' % (ga['local'], ga['why'])
        if ga['verdict'] == 'mismatch':
            return 'violation', 'gathered', 'local buffer `%s`: %s' % (ga['local'], ga['why'])
        return 'undecided', 'gathered', 'local buffer `%s`: %s' % (ga['local'], ga['why'])
    if m['k'] == 'CXXMemberCallExpr' and m['callee']['name'] in ('c_str', 'data') and m['callee'].get('classq') == 'std::basic_string':
        atom = string_size_atom(f, m['obj'], R, toupper_ok)
        # a string produced by a helper: its length is known only when the helper resizes it to one of its parameters
        so = f.nodes[f.strip(m['obj'], 'all')]
        hops = 0
        while so['k'] == 'DeclRefExpr' and so['decl'].get('dk') == 'local' and local_init(f, so['decl']['id']) is not None and hops < 3:
            so = f.nodes[f.strip(local_init(f, so['decl']['id']), 'all')]
            hops += 1
        if so['k'] == 'CallExpr' and so.get('callee', {}).get('inrepo') and so['callee'].get('qname') != 'ezc3d::toUpper':
            hf = prog.funcs.get(so['callee']['usr'])
            size_arg = None
            if hf is not None and hf.body is not None:
                Rh = Renderer(hf)
                rets = [hf.nodes[hf.strip(r_['ch'][0], 'all')] for r_ in hf.all_nodes({'ReturnStmt'}) if r_['ch']]
                if rets and all(r_['k'] == 'DeclRefExpr' and r_['decl'].get('dk') == 'local' for r_ in rets) and len({r_['decl']['id'] for r_ in rets}) == 1:
                    vid = rets[0]['decl']['id']
                    rs = [c_ for c_ in hf.calls() if c_['callee']['name'] == 'resize' and c_.get('obj') is not None and hf.nodes[hf.strip(c_['obj'], 'all')].get('decl', {}).get('id') == vid]
                    later = [c_ for c_ in hf.calls() if c_.get('obj') is not None and hf.nodes[hf.strip(c_['obj'], 'all')].get('decl', {}).get('id') == vid and not c_['callee'].get('const')
                             and c_['callee']['name'] not in ('resize', 'begin', 'end', 'operator[]', 'data')]
                    if len(rs) == 1 and not [c_ for c_ in later if c_['id'] > rs[0]['id']]:
                        am = re.match(r'^arg(\d+)$', Rh.render(rs[0]['args'][0]))
                        if am:
                            size_arg = int(am.group(1))
            if size_arg is not None and size_arg < len(f.call_args(so)):
                sp = P.poly(f, f.call_args(so)[size_arg], R)
                if all(P.equal(w, sp) for w in widths):
                    return 'ok', 'string', 'string resized by %s to %s characters, exactly that many written' % (hf.name, P.show(sp))
                return 'violation', 'string', 'byte count %s is not the length %s the helper %s gives the string' % ('/'.join(P.show(w) for w in widths), P.show(sp), hf.name)
            return 'undecided', 'string', 'the string comes from %s, whose result length the rule cannot read' % so['callee'].get('qname')
        if atom.startswith('?toUpper:'):
            return 'undecided', 'string', 'the string comes from ezc3d::toUpper, whose result length the rule cannot read on this tree (it is no longer a copy transformed in place)'
        import codec_rules as _CRn
        for w in widths:
            wn = {tuple(_CRn.upper_len_norm(prog, a_) for a_ in mono): c_ for mono, c_ in w.items()} if isinstance(w, dict) else w
            # min(size, K): never more than the string holds
            if isinstance(w, dict) and len(w) == 1 and list(w.values()) == [1] and len(list(w.keys())[0]) == 1:
                a1 = list(w.keys())[0][0]
                mm_ = re.match(r'^std::min(?:<[^>]*>)?\((.*)\)$', a1)
                if mm_:
                    parts_ = [x_.strip() for x_ in re.split(r',(?![^()]*\))', mm_.group(1))]
                    parts_ = [re.sub(r'^\((?:unsigned long|size_t|unsigned int|int|long)\)', '', x_) for x_ in parts_]
                    if atom in parts_ and len(parts_) == 2:
                        continue
            if not P.equal(w, {(atom,): 1}) and not P.equal(wn, {(_CRn.upper_len_norm(prog, atom),): 1}):
                return 'violation', 'string', 'byte count %s is not the size of the string being written (%s): bytes past its end would be emitted' % (P.show(w), atom)
        return 'ok', 'string', 'exactly %s characters' % atom
    if m['k'] == 'DeclRefExpr' and m['decl'].get('dk') == 'local':
        t = m['decl'].get('type', '')
        am = re.match(r'^(?:const )?(char|unsigned char|signed char|short|unsigned short|int|unsigned int|float|long|unsigned long|double|int16_t|uint16_t|int32_t|uint32_t|uint8_t|int8_t)\[(\d+)\]$', t)
        if am:
            esz = {'char': 1, 'unsigned char': 1, 'signed char': 1, 'uint8_t': 1, 'int8_t': 1, 'short': 2, 'unsigned short': 2, 'int16_t': 2, 'uint16_t': 2,
                   'int': 4, 'unsigned int': 4, 'float': 4, 'int32_t': 4, 'uint32_t': 4, 'long': 8, 'unsigned long': 8, 'double': 8}[am.group(1)]
            size = int(am.group(2)) * esz
            if local_init(f, m['decl']['id']) is None:
                # written piecewise before being emitted (memcpy / copy / element assignments)?
                filled = False
                for x in f.nodes:
                    if x['k'] in ('CallExpr', 'CXXMemberCallExpr') and 'callee' in x and x['callee']['name'] in ('memcpy', 'memset', 'memmove', 'copy', 'fill', 'fill_n', 'copy_n', 'strncpy', 'read'):
                        for a in x.get('args', []):
                            if any(f.nodes[y]['k'] == 'DeclRefExpr' and f.nodes[y]['decl'].get('id') == m['decl']['id'] for y in f.descendants(a)):
                                filled = True
                    if x['k'] == 'BinaryOperator' and x['op'] == '=':
                        l_ = f.nodes[f.strip(x['ch'][0], 'all')]
                        if l_['k'] == 'ArraySubscriptExpr' and any(f.nodes[y]['k'] == 'DeclRefExpr' and f.nodes[y]['decl'].get('id') == m['decl']['id'] for y in f.descendants(l_['id'])):
                            filled = True
                # filled only by assignments to constant positions: the positions never assigned are emitted as they were found on the stack
                const_idx, other_fill = set(), False
                N_ = int(am.group(2))
                for x in f.nodes:
                    if x['k'] in ('CallExpr', 'CXXMemberCallExpr', 'CXXOperatorCallExpr') and 'callee' in x and x['id'] != n['id']:
                        for a in x.get('args', []):
                            if any(f.nodes[y]['k'] == 'DeclRefExpr' and f.nodes[y]['decl'].get('id') == m['decl']['id'] for y in f.descendants(a)) and \
                                    not (x['k'] == 'CXXMemberCallExpr' and x['callee']['name'] == 'write'):
                                other_fill = True
                    if x['k'] in ('BinaryOperator', 'CompoundAssignOperator') and x.get('op', '=') == '=':
                        l_ = f.nodes[f.strip(x['ch'][0], 'all')]
                        if l_['k'] == 'ArraySubscriptExpr' and any(f.nodes[y]['k'] == 'DeclRefExpr' and f.nodes[y]['decl'].get('id') == m['decl']['id'] for y in f.descendants(l_['id'])):
                            ix_ = f.nodes[f.strip(l_['ch'][1], 'all')]
                            if 'cv' in ix_:
                                const_idx.add(int(ix_['cv']))
                            else:
                                other_fill = True
                    if x['k'] == 'UnaryOperator' and x.get('op') == '&' and any(f.nodes[y]['k'] == 'DeclRefExpr' and f.nodes[y]['decl'].get('id') == m['decl']['id'] for y in f.descendants(x['id'])):
                        other_fill = True
                missing_ = sorted(set(range(N_)) - const_idx)
                if filled and not other_fill and const_idx and missing_ and all(w.get((), 0) > min(missing_) * esz for w in widths if set(w.keys()) <= {()}) and all(set(w.keys()) <= {()} for w in widths):
                    return 'violation', 'array', 'array `%s` has no initialiser; only position(s) %s are assigned before it is written, position(s) %s are emitted uninitialised' % (m['decl']['name'], sorted(const_idx), missing_)
                if filled:
                    return 'undecided', 'array', 'array `%s` has no initialiser and is filled piecewise before it is written: that every byte is assigned is not decided' % m['decl']['name']
                return 'violation', 'array', 'array `%s` has no initialiser' % m['decl']['name']
            for w in widths:
                c = w.get((), 0) if set(w.keys()) <= {()} else None
                if c is None or c > size:
                    return 'violation', 'width', 'byte count %s is not bounded by the array size %d' % (P.show(w), size)
            return 'ok', 'array', 'initialised local array of %d bytes' % size
    if m['k'] == 'StringLiteral':
        size = len(m.get('v', '')) + 1
        for w in widths:
            c = w.get((), 0) if set(w.keys()) <= {()} else None
            if c is None or c > size:
                return 'violation', 'width', 'byte count %s exceeds the literal' % P.show(w)
        return 'ok', 'literal', ''
    return 'undecided', 'pointer', 'unclassifiable source pointer (%s)' % m['k']


def definitely_assigned(f, vid, use):
    g = f.events()
    uv = g.vertex_of.get(use)
    assigns = set()
    for n in f.nodes:
        if (n['k'] == 'BinaryOperator' and n['op'] == '='):
            t = f.nodes[f.strip(n['ch'][0], 'all')]
            if t['k'] == 'DeclRefExpr' and t['decl'].get('id') == vid and t['decl'].get('dk') == 'local':
                v = g.vertex_of.get(n['id'])
                if v is not None:
                    assigns.add(v)
    if uv is None:
        return False
    return uv not in g.reach([g.ENTRY], avoid=assigns)


def uninit_locals(prog, res, funcs, rule='determinism'):
    cnt = 0
    for f in funcs:
        g = None
        for d in [d for n in f.all_nodes({'DeclStmt'}) for d in n['decls']]:
            if d['dk'] != 'local' or d.get('tc') not in SCALAR or 'init' in d:
                continue
            cnt += 1
            reads = []
            for n in f.all_nodes({'DeclRefExpr'}):
                if n['decl'].get('id') == d['id'] and n['decl'].get('dk') == 'local':
                    par = f.nodes[n['p']] if n['p'] >= 0 else None
                    if par and par['k'] == 'BinaryOperator' and par['op'] == '=' and f.strip(par['ch'][0], 'all') == n['id']:
                        continue
                    reads.append(n['id'])
            bad = [r for r in reads if not definitely_assigned(f, d['id'], r)]
            if bad:
                res.viol(rule, 'local `%s`' % d['name'], f.loc(bad[0]), 'scalar local may be read before it is assigned', function=f.sig, expr='uninit:' + d['name'])
            else:
                res.ok(rule, 'local `%s` definitely assigned before %d reads' % (d['name'], len(reads)), f.loc(), function=f.sig, expr='uninit:' + d['name'])
    return cnt


def fresh_file_rule(prog, res, rule='fresh-file'):
    # ---- fresh-file: the destination holds the bytes of this save only -----------------------------
    # std::ios openmode bits (libstdc++): app=1 ate=2 binary=4 in=8 out=16 trunc=32.  `out` alone truncates; `in|out`
    # keeps what an existing longer file holds after the bytes written now; `app` writes behind the old content
    wf0 = prog.fn('ezc3d::c3d::write')
    nopen = 0
    # c3d::write and the file-local helpers it calls (a helper that opens the stream and hands it back)
    fam_ = [wf0] + [prog.funcs[c_['callee']['usr']] for c_ in wf0.calls() if c_['callee'].get('inrepo') and c_['callee'].get('usr') in prog.funcs and
                    (prog.funcs[c_['callee']['usr']].rec.get('internal') or '(anonymous namespace)' in prog.funcs[c_['callee']['usr']].qname) and prog.funcs[c_['callee']['usr']].body is not None]
    for wf in fam_:
      RW = Renderer(wf)
      for n in wf.nodes:
          cal = n.get('callee', {})
          if not str(cal.get('class', '')).startswith(('std::basic_fstream', 'std::basic_ofstream')):
              continue
          if not ((n['k'] in ('CXXConstructExpr', 'CXXTemporaryObjectExpr') and n.get('args')) or (n['k'] == 'CXXMemberCallExpr' and cal.get('name') == 'open')):
              continue
          args = n.get('args', []) if n['k'] != 'CXXMemberCallExpr' else wf.call_args(n)
          if not args or cal.get('copy') or cal.get('move'):
              continue      # (a stream moved out of a helper was opened there)
          # only the first open decides what the file holds before this save writes: a later re-open of the file
          # this very save has just produced must, on the contrary, keep it
          gw = wf.events()
          vme = gw.vertex_of.get(n['id'])
          earlier = False
          for n2 in wf.nodes:
              c2 = n2.get('callee', {})
              if n2['id'] == n['id'] or not str(c2.get('class', '')).startswith(('std::basic_fstream', 'std::basic_ofstream')):
                  continue
              if (n2['k'] in ('CXXConstructExpr', 'CXXTemporaryObjectExpr') and n2.get('args')) or (n2['k'] == 'CXXMemberCallExpr' and c2.get('name') == 'open'):
                  v2 = gw.vertex_of.get(n2['id'])
                  if v2 is not None and vme is not None and vme in gw.reach([v2]) and not (v2 in gw.reach([vme])):
                      earlier = True
          if earlier:
              continue
          nopen += 1
          inst = 'open mode of the output stream'
          is_of = str(cal.get('class', '')).startswith('std::basic_ofstream')
          mode = None
          if len(args) >= 2:
              mn = wf.nodes[wf.strip(args[1], 'all')]
              if mn['k'] == 'CXXDefaultArgExpr':
                  mode = 16 if is_of else 24
              else:
                  from paths import const_value
                  mode = const_value(wf, args[1])
          else:
              mode = 16 if is_of else 24
          if mode is None:
              res.undecided(rule, inst, wf.loc(n['id']), 'the open mode is not a constant the rule can read (%s) [shape not read by the rule]' % (RW.render(args[1]) if len(args) > 1 else ''), function=wf.sig, expr='openmode')
              continue
          if is_of:
              mode |= 16
          if mode & 1:
              res.viol(rule, inst, wf.loc(n['id']), 'the destination is opened in append mode: the bytes of this save follow whatever the file held before', function=wf.sig, expr='openmode')
          elif not (mode & 16):
              res.viol(rule, inst, wf.loc(n['id']), 'the destination is not opened for output (mode %d)' % mode, function=wf.sig, expr='openmode')
          elif (mode & 8) and not (mode & 32):
              res.viol(rule, inst, wf.loc(n['id']), 'the destination is opened in|out without trunc: an existing longer file keeps its tail after the bytes written now, so the saved file is not a function '
                       'of the object alone', function=wf.sig, expr='openmode')
          else:
              res.ok(rule, inst, wf.loc(n['id']), 'mode %d: an existing file is truncated when it is opened' % mode, function=wf.sig, expr='openmode')
    res.minimum('opens of the output stream in c3d::write', nopen, 1)


def run(prog, tier):
    res = Result('C14', tier,
                 'Over the save call graph: (purity) A3 effect sets confined to locals/the stream/caller-local out parameters, '
                 'no mutable member, const_cast or const-bypass accessor; (determinism) no static storage, nondeterministic '
                 'libc source, pointer-to-integer cast, unordered container or possibly-uninitialised local; (definedness) every '
                 'write(ptr,n) classified: &scalar object with n <= sizeof and the object initialised, string.c_str() with n equal '
                 'to that string\'s size (path-sensitive evaluation of the count), or initialised char array with n <= its size; '
                 '(member-init) every constructor initialises every scalar member.',
                 assumptions=['the compiler enforces constness of the write family; the rules close the holes it leaves (mutable, const_cast, handles, const-bypass accessors)',
                              'std::vector elements are value-initialised or copies of initialised values',
                              'padding: the scalar objects written have no padding bytes'],
                 not_decided=['byte identity of two saves as an observation (follows from purity + determinism + definedness under the stated assumptions)',
                              'equality of the object before/after as a run-time snapshot'])
    w = prog.fn('ezc3d::c3d::write', nparams=1)
    save = [prog.funcs[u] for u in sorted(prog.reachable_from([w]))]
    res.info['save_callgraph'] = [f.sig for f in save if not f.implicit]
    res.minimum('functions in the save call graph', len([f for f in save if not f.implicit]), 25)
    E = FX.get(prog)

    # ---- purity -------------------------------------------------------------------------------
    writers = [f for f in save if f.name == 'write' or f.name == 'writeImbricatedParameter']
    res.minimum('section writers', len(writers), 6)
    for f in save:
        if f.implicit:
            continue
        bad = []
        for e in sorted(E.of(f)):
            root, path, kind = e
            if root in ('this', 'static', 'unknown'):
                # a temporary being constructed inside save is local state: constructors of value
                # classes (std::string built by toUpper etc.) have root 'this' only in their own summary
                if f.kind in ('ctor', 'dtor') or (f.rec.get('copyassign') or f.rec.get('moveassign')):
                    continue
                bad.append(e)
            elif root.startswith('param:'):
                k = int(root.split(':')[1])
                pt = f.params[k]['type'] if k < len(f.params) else '?'
                # a section writer (it is handed the stream): its other reference parameters are the caller's, and writing them changes the object being saved
                if not is_streamish(pt) and any(is_streamish(p_['type']) for p_ in f.params):
                    bad.append(e)
        if bad and not f.rec.get('const') and f.kind == 'method':
            # a non-const method reachable from save: only acceptable on locals/temporaries; judged at its call sites
            pass
        if f.rec.get('const') or f.kind == 'function' or f is w:
            if bad:
                for e in bad[:3]:
                    if e[0] == 'unknown':
                        # the effect analysis could not tell what is written through (a pointer / iterator it does not resolve): no evidence either way
                        res.undecided('purity', FX.fmt(e), f.loc(), 'a function of the save path writes through something the effect analysis cannot resolve (%s) [shape not read by the rule]' % FX.fmt(e),
                                      function=f.sig, expr=FX.fmt(e))
                        continue
                    res.viol('purity', FX.fmt(e), f.loc(), 'a function of the save path modifies state that outlives the call: %s' % FX.fmt(e),
                             function=f.sig, expr=FX.fmt(e))
            else:
                res.ok('purity', 'effect set of %s' % f.sig.split('::')[-1], f.loc(), '%d effects, all on locals / stream / caller-local out parameters' % len(E.of(f)),
                       function=f.sig, expr='effects')
        # const_cast / const-bypass accessors / non-const calls on object state
        for n in f.all_nodes({'CXXConstCastExpr'}):
            res.viol('purity', 'const_cast', f.loc(n['id']), 'const_cast in the save path', function=f.sig, expr='const_cast')
        for n in f.calls():
            c = n['callee']
            if c.get('inrepo') and c.get('const') and c['ret'].endswith('&') and not c['ret'].startswith('const ') and 'ezc3d::' in c['ret']:
                # handed straight back as a reference to const: nothing can be modified through it
                par_ = None
                for a_ in f.ancestors(n['id']):
                    if f.nodes[a_]['k'] not in ('ImplicitCastExpr', 'ParenExpr', 'ExprWithCleanups', 'MaterializeTemporaryExpr'):
                        par_ = f.nodes[a_]
                        break
                if par_ is not None and par_['k'] == 'ReturnStmt' and str(f.rec.get('ret', '')).startswith('const '):
                    res.ok('purity', 'const-bypass accessor %s returned as const' % c['qname'], f.loc(n['id']), 'the mutable reference is returned as %s' % f.rec.get('ret'), function=f.sig,
                           expr='bypass-const:' + c['qname'], nontrivial=False)
                    continue
                res.viol('purity', 'const-bypass accessor %s' % c['qname'], f.loc(n['id']),
                         'save path obtains a mutable reference to object state through a const accessor', function=f.sig, expr='bypass:' + c['qname'])
    for q, c in sorted(prog.classes.items()):
        for fl in c['fields']:
            if fl['mutable']:
                res.viol('purity', '%s::%s' % (q, fl['name']), '%s:%d' % (c['file'].replace(prog.repo + '/', ''), fl['line']),
                         'mutable member: const save functions may modify it', function='', expr='mutable:' + fl['name'])
    res.ok('purity', 'no mutable member in any class', 'include/', '%d classes' % len(prog.classes), function='', expr='mutable', nontrivial=False)
    if not w.rec.get('const'):
        res.viol('purity', 'c3d::write is not const', w.loc(), 'save is no longer declared const', function=w.sig, expr='const')

    # ---- determinism --------------------------------------------------------------------------
    for f in save:
        if f.implicit:
            continue
        for n in f.all_nodes({'DeclRefExpr'}):
            d = n['decl']
            if d.get('static_storage'):
                t = d.get('type', '')
                if t.startswith('const ') and d.get('tc') in ('s', 'u', 'e', 'b', 'f'):
                    continue
                res.viol('determinism', d['qname'], f.loc(n['id']), 'save path reads/writes static-storage variable %s' % d['qname'], function=f.sig, expr='static:' + d['qname'])
        for n in f.calls():
            q = n['callee']['qname']
            if q in NONDET or (not n['callee'].get('class') and n['callee']['name'] in NONDET):
                res.viol('determinism', q, f.loc(n['id']), 'nondeterministic source in the save path', function=f.sig, expr='nondet:' + q)
        for n in f.nodes:
            if n.get('ck') == 'PointerToIntegral':
                res.viol('determinism', 'pointer-to-integer conversion', f.loc(n['id']), 'an address may reach the output', function=f.sig, expr='ptr2int')
            if n['k'] == 'DeclStmt':
                for d in n['decls']:
                    if 'unordered_' in d.get('type', ''):
                        res.viol('determinism', 'unordered container', f.loc(n['id']), 'iteration order is unspecified', function=f.sig, expr='unordered')
    nl = uninit_locals(prog, res, [f for f in save if not f.implicit])
    res.ok('determinism', 'save call graph screened for static storage, nondeterministic calls, pointer->integer, unordered containers',
           'src/', '%d functions' % len(save), function='', expr='screen')

    # ---- definedness ----------------------------------------------------------------------------
    tu_ok, tu_why = length_preserving_toupper(prog)
    if tu_ok:
        res.ok('definedness', 'ezc3d::toUpper is length-preserving (copy + in-place transform)', 'src/ezc3d.cpp', function='ezc3d::toUpper', expr='lemma')
    nw = 0
    for f in save:
        if f.implicit:
            continue
        R = Renderer(f)
        for n in f.calls():
            c = n['callee']
            if c['name'] in WRITERS and c.get('classq', '').startswith(('std::basic_ostream', 'std::basic_streambuf', 'std::basic_filebuf', 'std::basic_fstream')):
                nw += 1
                verdict, kind, detail = classify_write(prog, f, n, R, tu_ok)
                key = '%s:%s' % (kind, R.render(f.call_args(n)[0]) if f.call_args(n) else '?')
                if verdict == 'ok':
                    res.ok('definedness', key, f.loc(n['id']), detail, function=f.sig, expr='%s@%d' % (key, n['id']))
                elif verdict == 'violation':
                    res.viol('definedness', key, f.loc(n['id']), detail, function=f.sig, expr=key)
                else:
                    res.undecided('definedness', key, f.loc(n['id']), detail, function=f.sig, expr=key)
    res.minimum('write calls in the save call graph', nw, 25)

    import p_c13
    from result import Result as _R
    tmp = _R('x', tier, '')
    p_c13.stale_reference_rule(prog, tmp)
    for o in tmp.obs:
        if 'temp-ptr' in o['expr']:
            res.obs.append(dict(o, rule='definedness'))
    # ---- every element the writers emit is an element the object holds: an index beyond the container hands
    # bytes from outside the object to write()
    import indexsites
    ns = indexsites.rule(prog, res, scope={f.usr for f in save}, rule_name='defined-source')
    res.minimum('index sites in the save call graph', ns, 8)
    fresh_file_rule(prog, res)
    # ---- member-init -----------------------------------------------------------------------------
    ni = member_init_rule(prog, res)
    res.minimum('constructor x scalar-member obligations', ni, 40)
    return res
