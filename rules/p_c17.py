"""C17 — content at the format's limits survives; beyond them saving refuses (partial claim)."""
from result import Result
import codec_rules as CR


def run(prog, tier):
    res = Result('C17', tier,
                 'At the limits: every length/count field is read with the signedness the format gives it (name length signed with abs, id signed, '
                 'next-offset unsigned 16, dimension count and entries unsigned 8, description length unsigned 8, block count unsigned 8, header words '
                 'unsigned 16, INT payload signed 16) and written from a string/value of full length, so a limit value decodes to itself. Beyond the '
                 'limits: every write(&obj, n) with n < sizeof(obj) needs a proof that the value fits (constant, enum, member whose writers are all '
                 'in range) or a dominating range check that throws.',
                 assumptions=['spec/c3d_layout.json transcribes the C3D layout correctly'],
                 not_decided=['that content at a limit round-trips as values (execution)', 'numeric correctness of hex2int at the 16-bit extremes (C12 declined clause)'])
    CR.group_reader_rule(prog, res, 'signedness/group-read')
    CR.parameter_reader_rule(prog, res, 'signedness/parameter-read')
    CR.parameters_reader_rule(prog, res, 'signedness/parameters-read')
    CR.header_reader_rule(prog, res, 'signedness/header-read', int_scale_ok=True)
    CR.group_writer_rule(prog, res, 'full-length/group-write')
    CR.parameter_writer_rule(prog, res, 'full-length/parameter-write')
    CR.truncating_write_rule(prog, res)
    CR.overstrict_guard_rule(prog, res)
    CR.primitive_read_rule(prog, res)
    CR.unsigned_dest_rule(prog, res)
    CR.char_range_widening_rule(prog, res)
    CR.patch_guard_rule(prog, res)
    return res
