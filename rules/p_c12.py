"""C12 — every integer and float bit pattern is decoded and encoded exactly (partial claim)."""
from result import Result
import codec_rules as CR


def run(prog, tier):
    res = Result('C12', tier,
                 'Float payload path is copy-only: the storage of every saved REAL, every store into it and every getter on the way is `float` with no '
                 'arithmetic and no floating conversion, readFloat is a reinterpretation of the bytes read, writers emit the object\'s own 4 bytes; integer '
                 'fields are read/written with the width and signedness the layout table gives (INT payload signed 16, BYTE signed 8, counts unsigned); '
                 'raw bytes from the file buffer are zero-extended through unsigned char; copies are component-complete.',
                 assumptions=['float objects are IEEE-754 binary32 and copying a float object preserves its bits (no x87 excess precision on the targets built)',
                              'host is little-endian like the files (declined clause)'],
                 not_decided=['that hex2uint/hex2int compute the right number for all 2^8 / 2^16 / 2^32 byte patterns: a statement about pow() in floating point, a '
                              'float-to-int cast and a half-range comparison over run-time values; settling it needs enumeration (execution) or a solver (another family)',
                              'the host-endianness assumption'])
    CR.float_path_rule(prog, res)
    CR.zero_extension_rule(prog, res)
    CR.copy_completeness_rule(prog, res)
    CR.parameter_writer_rule(prog, res, 'width-sign/parameter-write')
    CR.parameter_reader_rule(prog, res, 'width-sign/parameter-read')
    CR.header_writer_rule(prog, res, 'width-sign/header-write', int_scale_ok=True)
    CR.header_reader_rule(prog, res, 'width-sign/header-read', int_scale_ok=True)
    CR.frame_writer_rule(prog, res, 'width-sign/frame-write')
    CR.frame_reader_rule(prog, res, 'width-sign/frame-read')
    CR.numeric_payload_rule(prog, res)
    # the REAL words reach the object through the value setters of Point / Channel: they store what they are given
    import setters
    setters.rule(prog, res, {'ezc3d::DataNS::Points3dNS::Point', 'ezc3d::DataNS::AnalogsNS::Channel'}, rule_name='value-setters', minimum=5)
    CR.primitive_read_rule(prog, res)
    CR.unsigned_dest_rule(prog, res)
    return res
