"""Access paths (A2): where does an expression live, and a canonical rendering that does not depend
on spelling (parentheses, no-op casts, single-use locals, accessor vs field)."""
import re
from facts import CALL_KINDS, CAST_KINDS, WRAPPERS, NOOP_CASTS, AnalysisBroken

ELEMENT_MEMBERS = {'operator[]', 'at', 'back', 'front', 'data'}
SMART_DEREF = {'operator->', 'operator*', 'get'}


def root_of(fn, i):
    """(root kind, [path components]) of the object an lvalue/prvalue expression designates.
    root kind: this | local | param | staticlocal | global | temp | literal | unknown"""
    path = []
    prog = fn.prog
    for _ in range(200):
        i = fn.strip(i, 'all')
        n = fn.nodes[i]
        k = n['k']
        if k == 'CXXThisExpr':
            return 'this', path[::-1]
        if k == 'DeclRefExpr':
            d = n['decl']
            rv = range_vars(fn)
            if d.get('dk') == 'local' and d.get('id') in rv and rv[d['id']][1]:
                path.append('[]')
                i = rv[d['id']][0]
                continue
            if d.get('dk') == 'local' and d.get('isref'):
                init = local_init(fn, d['id'])
                if init is not None:
                    i = init
                    continue
            if d.get('dk') == 'local' and ('__normal_iterator' in d.get('type', '') or '_iterator' in d.get('type', '')):
                # an iterator local: it designates an element of the range it was obtained from
                init = local_init(fn, d['id'])
                if init is not None:
                    i = init
                    continue
            if d.get('dk') == 'param' and d.get('id') not in [p['id'] for p in fn.params] and d.get('id') in lambda_params(fn) and lambda_params(fn)[d['id']][6]:
                path.append('[]')
                i = lambda_params(fn)[d['id']][0]
                continue
            if d.get('dk') == 'param':
                ids = [p['id'] for p in fn.params]
                if d.get('id') in ids:
                    path.append('#%d' % ids.index(d['id']))
                    return ('param' if d.get('isref') or d.get('tc') == 'p' else 'param-value'), path[::-1]
            path.append(d.get('name', '?'))
            return d.get('dk', 'unknown'), path[::-1]
        if k == 'MemberExpr':
            if n.get('mk') == 'field':
                path.append(n['member'])
            i = n['ch'][0]
            continue
        if k == 'UnaryOperator' and n['op'] in ('*', '&'):
            i = n['ch'][0]
            continue
        if k == 'ArraySubscriptExpr':
            path.append('[]')
            i = n['ch'][0]
            continue
        if k == 'CallExpr' and 'callee' in n and n['callee'].get('qname') in ('std::find_if', 'std::find', 'std::find_if_not', 'std::lower_bound', 'std::upper_bound',
                                                                                'std::max_element', 'std::min_element', 'std::next', 'std::prev', 'std::advance') and fn.call_args(n):
            # the result is an iterator into the range given by the first argument
            i = fn.call_args(n)[0]
            continue
        if k in ('CXXMemberCallExpr', 'CXXOperatorCallExpr') and 'callee' in n and ('__normal_iterator' in n['callee'].get('classq', '') or
                                                                                     '__normal_iterator' in n['callee'].get('qname', '')) and fn.call_obj(n) is not None:
            i = fn.call_obj(n)
            continue
        if k in ('CXXMemberCallExpr', 'CXXOperatorCallExpr') and 'callee' in n:
            c = n['callee']
            obj = fn.call_obj(n)
            name = c['name']
            if obj is None:
                return ('temp' if not c['ret'].endswith('&') else 'unknown'), path[::-1]
            if c.get('classq', '').startswith('std::'):
                if name in ELEMENT_MEMBERS:
                    path.append('[]')
                    i = obj
                    continue
                if name in SMART_DEREF or name == 'rdbuf':
                    i = obj
                    continue
                if name in ('begin', 'end', 'cbegin', 'cend'):
                    path.append('[]')
                    i = obj
                    continue
                if not (c['ret'].endswith('&') or c['ret'].endswith('*')):
                    return 'temp', path[::-1]
                return 'unknown', path[::-1]
            # repo accessor returning a reference: follow its returns-alias summary
            if c['ret'].endswith('&') or c['ret'].endswith('*'):
                summ = returns_alias(prog, c['usr'])
                if summ is None:
                    return 'unknown', path[::-1]
                for comp in summ[::-1]:
                    path.append(comp)
                i = obj
                continue
            return 'temp', path[::-1]
        if k == 'CallExpr' and 'callee' in n and n['callee'].get('inrepo') and n['callee'].get('ret', '').endswith('&'):
            # free helper returning a reference into one of its reference parameters
            summ = returns_param_alias(prog, n['callee']['usr'])
            args = fn.call_args(n)
            if summ is None or summ[0] >= len(args):
                return 'unknown', path[::-1]
            for comp in summ[1][::-1]:
                path.append(comp)
            i = args[summ[0]]
            continue
        if k in ('CXXConstructExpr', 'CXXTemporaryObjectExpr', 'CXXFunctionalCastExpr', 'CallExpr',
                 'CXXNewExpr', 'InitListExpr', 'CXXStdInitializerListExpr', 'BinaryOperator',
                 'ConditionalOperator', 'CXXDefaultArgExpr'):
            return 'temp', path[::-1]
        if k in ('IntegerLiteral', 'FloatingLiteral', 'StringLiteral', 'CharacterLiteral', 'CXXBoolLiteralExpr'):
            return 'literal', path[::-1]
        return 'unknown', path[::-1]
    return 'unknown', path[::-1]


def range_vars(fn):
    """{loop variable decl id: (range expression node, is_reference)} for the range-for loops of fn"""
    c = getattr(fn, '_range_vars', None)
    if c is None:
        c = {}
        for n in fn.all_nodes({'CXXForRangeStmt'}):
            lv = n.get('loopvar')
            if lv and 'range' in n:
                c[lv['id']] = (n['range'], bool(lv.get('isref')), n['id'])
        fn._range_vars = c
    return c


STD_RANGE_ALGOS = ('std::for_each', 'std::find_if', 'std::find_if_not', 'std::any_of', 'std::all_of', 'std::none_of', 'std::count_if')


def lambda_params(fn):
    """{decl id of the parameter of a lambda passed to a std range algorithm over [X.begin(), X.end()):
        (node of X, parameter name, call node, lambda node, body node)}"""
    c = getattr(fn, '_lambda_params', None)
    if c is not None:
        return c
    c = {}
    own = {p['id'] for p in fn.params}
    for n in fn.nodes:
        if n['k'] != 'CallExpr' or n.get('callee', {}).get('qname') not in STD_RANGE_ALGOS:
            continue
        args = fn.call_args(n)
        if len(args) != 3:
            continue
        b = fn.nodes[fn.strip(args[0], 'all')]
        e = fn.nodes[fn.strip(args[1], 'all')]
        lam = fn.nodes[fn.strip(args[2], 'all')]
        if lam['k'] != 'LambdaExpr':
            continue
        count = None
        if b['k'] == 'CXXMemberCallExpr' and b['callee']['name'] in ('begin', 'cbegin') and e['k'] == 'CXXOperatorCallExpr' and e.get('op') == '+' and len(e.get('args', [])) == 2:
            # [X.begin(), X.begin() + K)
            e0 = fn.nodes[fn.strip(e['args'][0], 'all')]
            if e0['k'] == 'CXXMemberCallExpr' and e0['callee']['name'] in ('begin', 'cbegin') and e0.get('obj') is not None:
                count = e['args'][1]
                e = e0
        if not (b['k'] == 'CXXMemberCallExpr' and b['callee']['name'] in ('begin', 'cbegin') and e['k'] == 'CXXMemberCallExpr' and
                (e['callee']['name'] in ('end', 'cend') or count is not None)):
            continue
        if b.get('obj') is None or e.get('obj') is None:
            continue
        ids = {}
        for x in fn.descendants(lam['id']):
            m = fn.nodes[x]
            if m['k'] == 'DeclRefExpr' and m['decl'].get('dk') == 'param' and m['decl']['id'] not in own:
                ids[m['decl']['id']] = m['decl']
        body = [x for x in lam['ch'] if fn.nodes[x]['k'] == 'CompoundStmt']
        if 'lparams' in lam:
            # the lambda's own parameter(s): references to parameters of an enclosing lambda (captured) are not ours
            ids = {k_: v_ for k_, v_ in ids.items() if k_ in lam['lparams']}
        if len(ids) != 1 or len(body) != 1:
            continue
        (did, d), = ids.items()
        c[did] = (b['obj'], d['name'], n['id'], lam['id'], body[0], e['obj'], bool(d.get('isref')), count)
    fn._lambda_params = c
    return c


def iterator_loops(fn, R):
    """{iterator local decl id: rendering of the range} for the loops  for (it = X.begin(); it != X.end(); ++it)"""
    c = getattr(fn, '_iterator_loops', None)
    if c is None:
        fn._iterator_loops = c = {}
        from loops import iterator_for
        for n in fn.all_nodes({'ForStmt'}):
            il = iterator_for(fn, n['id'], R)
            if il:
                c[il['var']] = il['range']
    return c


def local_init(fn, did):
    c = getattr(fn, '_local_inits', None)
    if c is None:
        c = {}
        for n in fn.all_nodes({'DeclStmt'}):
            for d in n['decls']:
                if 'init' in d:
                    c[d['id']] = d['init']
        fn._local_inits = c
    return c.get(did)


_alias_cache = {}


def returns_alias(prog, usr, depth=0):
    """for a repo method that returns a reference: the field path (relative to *this) that the
    returned reference designates on every return, or None when it cannot be summarised"""
    key = (id(prog), usr)
    if key in _alias_cache:
        return _alias_cache[key]
    f = prog.funcs.get(usr)
    if f is None or depth > 6:
        return None
    _alias_cache[key] = None  # recursion guard
    rets = [n for n in f.all_nodes({'ReturnStmt'})]
    out = None
    for r in rets:
        if not r['ch']:
            return None
        kind, p = root_of(f, r['ch'][0])
        if kind != 'this':
            out = None
            break
        if out is None:
            out = p
        elif out != p:
            out = None
            break
    _alias_cache[key] = out
    return out


def returns_param_alias(prog, usr):
    """for a repo free function returning a reference: (parameter index, path below it) when every
    return designates the same place below the same reference parameter; else None"""
    key = (id(prog), usr, 'param')
    if key in _alias_cache:
        return _alias_cache[key]
    f = prog.funcs.get(usr)
    _alias_cache[key] = None
    if f is None:
        return None
    out = None
    for r in f.all_nodes({'ReturnStmt'}):
        if not r['ch']:
            return None
        kind, p = root_of(f, r['ch'][0])
        if kind != 'param' or not p or not p[0].startswith('#'):
            return None
        cur = (int(p[0][1:]), p[1:])
        if out is None:
            out = cur
        elif out != cur:
            return None
    _alias_cache[key] = out
    return out


# ---------------------------------------------------------------------------------------------
# canonical rendering

class Renderer:
    """canonical, spelling-independent string for an expression.  Locals with exactly one
    definition that is never reassigned / address-taken / bound to a non-const reference are
    replaced by their initialiser."""

    def __init__(self, fn):
        self.fn = fn
        self.prog = fn.prog
        self._single = None

    def single_def_locals(self):
        if self._single is not None:
            return self._single
        fn = self.fn
        defs = {}
        bad = set()
        for n in fn.all_nodes({'DeclStmt'}):
            for d in n['decls']:
                if d['dk'] == 'local':
                    if 'init' in d:
                        defs[d['id']] = d
                    else:
                        bad.add(d['id'])
        for n in fn.nodes:
            k = n['k']
            tgt = None
            if k == 'BinaryOperator' and n['op'] in ('=',) or k == 'CompoundAssignOperator':
                tgt = n['ch'][0]
            elif k == 'UnaryOperator' and n['op'] in ('++', '--', '&'):
                tgt = n['ch'][0]
            elif k == 'CXXOperatorCallExpr' and n.get('op') in ('=', '+=', '-=', '*=', '/=', '++', '--', '<<=', '>>=', '|=', '&='):
                tgt = n['args'][0]
            elif k == 'CXXMemberCallExpr' and not n['callee'].get('const') and n.get('obj') is not None:
                tgt = n['obj']
            if tgt is not None:
                m = self._base_local(tgt)
                if m is not None:
                    bad.add(m)
            # passed by non-const reference
            if k in CALL_KINDS and 'callee' in n:
                pts = n['callee'].get('ptypes', [])
                args = fn.call_args(n)
                for a, pt in zip(args, pts):
                    if pt.endswith('&') and not pt.startswith('const '):
                        m = self._base_local(a)
                        if m is not None:
                            bad.add(m)
        # an initialiser with side effects (a read from the file, tellg(), ...) must not be
        # duplicated into every use: such locals stay opaque
        for i, d in list(defs.items()):
            if not d.get('isref') and self._impure(d['init']):
                bad.add(i)
        self._single = {i: d for i, d in defs.items() if i not in bad or d.get('isref')}
        return self._single

    def _base_local(self, i):
        """id of the non-reference local variable that owns the storage designated by expression i
        (x, x.f, x[i], x.at(i), *x.begin() ...), or None"""
        fn = self.fn
        for _ in range(40):
            m = fn.nodes[fn.strip(i, 'all')]
            k = m['k']
            if k == 'DeclRefExpr':
                if m['decl'].get('dk') == 'local':
                    return m['decl']['id']
                return None
            if k == 'MemberExpr' and m['ch'] and not m.get('arrow'):
                i = m['ch'][0]
            elif k == 'ArraySubscriptExpr':
                i = m['ch'][0]
            elif k == 'CXXOperatorCallExpr' and m.get('op') in ('[]',) and m.get('args'):
                t = fn.nodes[fn.strip(m['args'][0], 'all')].get('t', '')
                if not (t.startswith('std::vector') or t.startswith('std::basic_string') or t.startswith('std::string') or t.startswith('std::array')
                        or t.startswith('const std::vector')):
                    return None
                i = m['args'][0]
            elif k == 'CXXMemberCallExpr' and m['callee']['name'] in ('at', 'front', 'back') and m['callee'].get('classq', '').startswith('std::') and m.get('obj') is not None:
                i = m['obj']
            else:
                return None
        return None

    def _impure(self, i):
        fn = self.fn
        for x in fn.descendants(i):
            n = fn.nodes[x]
            if n['k'] in ('CXXMemberCallExpr', 'CXXOperatorCallExpr') and 'callee' in n and fn.call_obj(n) is not None:
                c = n['callee']
                if not c.get('const') and c['name'] not in ('operator[]', 'at', 'begin', 'end', 'back', 'front', 'operator*', 'operator->', 'get', 'data'):
                    return True
            if n['k'] == 'CXXNewExpr':
                return True
            if n['k'] == 'CallExpr' and 'callee' in n and any(('basic_fstream' in pt or 'basic_ostream' in pt or 'basic_iostream' in pt or 'std::fstream' in pt or 'std::ostream' in pt)
                                                              and pt.endswith('&') and not pt.startswith('const ') for pt in n['callee'].get('ptypes', [])):
                return True     # a helper that is handed the output stream: it writes / moves the stream
        return False

    def render(self, i, depth=0):
        fn = self.fn
        if depth > 60:
            return '?deep'
        i = fn.strip(i)
        n = fn.nodes[i]
        k = n['k']
        if 'cv' in n and k not in ('DeclRefExpr',) or ('cv' in n and k == 'DeclRefExpr' and n['decl'].get('dk') in ('enumconst', 'global')):
            return n['cv']
        if k in CAST_KINDS:
            inner = self.render(n['ch'][0], depth + 1)
            ck = n.get('ck')
            if ck in ('IntegralCast', 'IntegralToFloating', 'FloatingToIntegral', 'FloatingCast', 'IntegralToBoolean', 'FloatingToBoolean'):
                return '(%s)%s' % (n['t'], inner)
            return inner
        if k == 'CXXThisExpr':
            return 'this'
        if k == 'DeclRefExpr':
            d = n['decl']
            dk = d.get('dk')
            if dk == 'param':
                idx = [p['id'] for p in fn.params].index(d['id']) if d['id'] in [p['id'] for p in fn.params] else -1
                if idx < 0:
                    lp = lambda_params(fn)
                    if d['id'] in lp and self.render(lp[d['id']][0], depth + 1) == self.render(lp[d['id']][5], depth + 1):
                        # the parameter of a lambda run over [X.begin(), X.end()): the current element of X
                        el = '%s[local:%s]' % (self.render(lp[d['id']][0], depth + 1), d['name'])
                        return el if lp[d['id']][6] else 'copy(%s)' % el
                return 'arg%d' % idx
            if dk == 'local':
                rv = range_vars(fn)
                if d['id'] in rv:
                    el = '%s[local:%s]' % (self.render(rv[d['id']][0], depth + 1), d['name'])
                    return el if rv[d['id']][1] else 'copy(%s)' % el
                sd = self.single_def_locals()
                if d['id'] in sd:
                    return self.render(sd[d['id']]['init'], depth + 1)
                return 'local:%s' % d['name']
            return d.get('qname', d.get('name', '?'))
        if k == 'MemberExpr':
            base = self.render(n['ch'][0], depth + 1)
            return '%s.%s' % (base, n['member'])
        if k in ('IntegerLiteral', 'FloatingLiteral'):
            return str(n['v'])
        if k == 'StringLiteral':
            return '"%s"' % n.get('v', '')
        if k == 'CharacterLiteral':
            return "'%s'" % n['v']
        if k == 'CXXBoolLiteralExpr':
            return 'true' if n['v'] else 'false'
        if k == 'UnaryOperator':
            return '%s(%s)' % (n['op'], self.render(n['ch'][0], depth + 1))
        if k in ('BinaryOperator', 'CompoundAssignOperator'):
            return '(%s %s %s)' % (self.render(n['ch'][0], depth + 1), n['op'], self.render(n['ch'][1], depth + 1))
        if k == 'ArraySubscriptExpr':
            return '%s[%s]' % (self.render(n['ch'][0], depth + 1), self.render(n['ch'][1], depth + 1))
        if k == 'ConditionalOperator':
            return '(%s ? %s : %s)' % tuple(self.render(n[x], depth + 1) for x in ('cond', 'lhs', 'rhs'))
        if k == 'CXXOperatorCallExpr' and n.get('op') in ('*', '->') and len(n.get('args', [])) == 1:
            t = fn.nodes[fn.strip(n['args'][0], 'all')]
            if t['k'] == 'DeclRefExpr' and t['decl'].get('dk') == 'local' and '_iterator' in t['decl'].get('type', ''):
                il = iterator_loops(fn, self)
                if t['decl']['id'] in il:
                    return '%s[local:%s]' % (il[t['decl']['id']], t['decl']['name'])
        if k in ('CXXMemberCallExpr', 'CXXOperatorCallExpr') and 'callee' in n:
            c = n['callee']
            obj = fn.call_obj(n)
            args = [self.render(a, depth + 1) for a in fn.call_args(n)]
            name = c['name']
            if obj is not None:
                o = self.render(obj, depth + 1)
                if c.get('classq', '').startswith('std::'):
                    if name in SMART_DEREF and not args:
                        return o
                    if name in ('operator[]', 'at') and len(args) == 1:
                        return '%s[%s]' % (o, args[0])
                    if name in ('size', 'length') and not args:
                        return '%s.size' % o
                    return '%s.%s(%s)' % (o, name, ','.join(args))
                # repo accessor: render through what it returns when it is a plain field getter
                f = self.prog.funcs.get(c['usr'])
                if f is not None and not args:
                    g = inline_getter(f)
                    if g is not None:
                        return re.sub(r'\bthis\b', lambda m: o, g)
                # X.elem_nonConst(..) == X.elem(..); X.elem(X.elemIdx(N)) == X.elem(N)  (C11 verifies
                # that by-name accessors are positional(indexByName(name)) on one container)
                if name.endswith('_nonConst'):
                    name = name[:-len('_nonConst')]
                if len(args) == 1:
                    pre = '%s.%sIdx(' % (o, name)
                    if args[0].startswith(pre) and args[0].endswith(')'):
                        args = [args[0][len(pre):-1]]
                return '%s.%s(%s)' % (o, name, ','.join(args))
            return '%s(%s)' % (c['qname'], ','.join(args))
        if k in ('CallExpr', 'CXXConstructExpr', 'CXXTemporaryObjectExpr') and 'callee' in n:
            args = [self.render(a, depth + 1) for a in n.get('args', [])]
            c = n['callee']
            if k != 'CallExpr' and len(args) == 1 and (c.get('copy') or c.get('move')):
                return args[0]
            if k != 'CallExpr':
                if c.get('class') == 'std::basic_string<char>' and args and args[0].startswith('"'):
                    return args[0]
                return '%s{%s}' % (c.get('class', c['qname']), ','.join(args))
            return '%s(%s)' % (c['qname'], ','.join(args))
        if k == 'CXXNewExpr':
            return 'new %s' % n['alloc_t']
        if k == 'InitListExpr' or k == 'CXXStdInitializerListExpr':
            return '{%s}' % ','.join(self.render(c, depth + 1) for c in n['ch'])
        if k == 'UnaryExprOrTypeTraitExpr' and 'cv' in n:
            return n['cv']
        if k == 'CXXDefaultArgExpr':
            return 'default'
        return '?%s' % k


_inline_cache = {}


def inline_getter(f):
    """canonical rendering (rooted at 'this') of what a zero-argument, single-return method
    returns, when that rendering mentions nothing but this-rooted paths and constants"""
    key = (id(f.prog), f.usr)
    if key in _inline_cache:
        return _inline_cache[key]
    _inline_cache[key] = None
    out = None
    if not f.params:
        body = f.nodes[f.body]
        rets = list(f.all_nodes({'ReturnStmt'}))
        if len(body['ch']) == 1 and len(rets) == 1 and rets[0]['ch'] and body['ch'][0] == rets[0]['id']:
            r = Renderer(f).render(rets[0]['ch'][0])
            if '?' not in r and 'local:' not in r and 'arg' not in r:
                out = r
    _inline_cache[key] = out
    return out


def plain_getter(f):
    """name of the field a zero-argument method returns (return _x; / return *_x;), else None"""
    if f.params:
        return None
    rets = list(f.all_nodes({'ReturnStmt'}))
    if len(rets) != 1 or not rets[0]['ch']:
        return None
    body = f.nodes[f.body]
    if len(body['ch']) != 1:
        return None
    i = f.strip(rets[0]['ch'][0], 'all')
    n = f.nodes[i]
    for _ in range(4):
        if n['k'] == 'UnaryOperator' and n['op'] == '*':
            n = f.nodes[f.strip(n['ch'][0], 'all')]
        elif n['k'] == 'CXXOperatorCallExpr' and n['callee']['name'] in ('operator*',):
            n = f.nodes[f.strip(n['args'][0], 'all')]
        else:
            break
    if n['k'] == 'MemberExpr' and n.get('mk') == 'field' and f.nodes[f.strip(n['ch'][0], 'all')]['k'] == 'CXXThisExpr':
        return n['member']
    return None


def const_value(fn, i, hops=3):
    """integer constant value of expression i, looking through locals that are defined once by a constant expression"""
    n = fn.nodes[fn.strip(i, 'all')]
    while hops > 0 and n.get('cv') is None and n['k'] == 'DeclRefExpr' and n['decl'].get('dk') == 'local':
        ini = local_init(fn, n['decl']['id'])
        if ini is None:
            return None
        # a single definition: no assignment to the local anywhere
        for m in fn.nodes:
            if m['k'] in ('BinaryOperator', 'CompoundAssignOperator') and m.get('op', '').endswith('=') and m.get('op') not in ('==', '!=', '<=', '>='):
                t = fn.nodes[fn.strip(m['ch'][0], 'all')]
                if t['k'] == 'DeclRefExpr' and t['decl'].get('id') == n['decl']['id']:
                    return None
        n = fn.nodes[fn.strip(ini, 'all')]
        while n['k'] in ('CXXConstructExpr', 'ExprWithCleanups', 'MaterializeTemporaryExpr') and (n.get('args') or n.get('ch')) and n.get('cv') is None:
            n = fn.nodes[fn.strip((n.get('args') or n.get('ch'))[0], 'all')]
        hops -= 1
    try:
        return int(n['cv']) if n.get('cv') is not None else None
    except (TypeError, ValueError):
        return None
