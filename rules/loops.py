"""Loop normal form: for (T i = START; i CMP BOUND; ++i) with i not otherwise modified."""
from paths import Renderer


def loop_var_modified_in(fn, var_id, nodes):
    for x in nodes:
        n = fn.nodes[x]
        k = n['k']
        tgt = None
        if (k == 'BinaryOperator' and n['op'] == '=') or k == 'CompoundAssignOperator':
            tgt = n['ch'][0]
        elif k == 'UnaryOperator' and n['op'] in ('++', '--', '&'):
            tgt = n['ch'][0]
        if tgt is not None:
            m = fn.nodes[fn.strip(tgt, 'all')]
            if m['k'] == 'DeclRefExpr' and m['decl'].get('id') == var_id and m['decl'].get('dk') in ('local', 'param'):
                return True
    return False


def normal_for(fn, fid):
    """-> dict(var=id, name, start=node, start_cv, op, bound=node, body=node, vartype) or None"""
    n = fn.nodes[fid]
    if n['k'] != 'ForStmt' or 'init' not in n or 'cond' not in n or 'inc' not in n:
        return None
    init = fn.nodes[n['init']]
    if init['k'] != 'DeclStmt' or len(init['decls']) != 1 or 'init' not in init['decls'][0]:
        return None
    d = init['decls'][0]
    cond = fn.nodes[fn.strip(n['cond'], 'all')]
    if cond['k'] != 'BinaryOperator' or cond['op'] not in ('<', '<=', '!=', '>', '>='):
        return None
    l = fn.nodes[fn.strip(cond['ch'][0], 'all')]
    r = fn.nodes[fn.strip(cond['ch'][1], 'all')]
    op = cond['op']
    if l['k'] == 'DeclRefExpr' and l['decl'].get('id') == d['id']:
        bound = cond['ch'][1]
    elif r['k'] == 'DeclRefExpr' and r['decl'].get('id') == d['id']:
        bound = cond['ch'][0]
        op = {'<': '>', '<=': '>=', '>': '<', '>=': '<=', '!=': '!='}[op]
    else:
        return None
    inc = fn.nodes[fn.strip(n['inc'], 'all')]
    if not (inc['k'] == 'UnaryOperator' and inc['op'] == '++'):
        return None
    iv = fn.nodes[fn.strip(inc['ch'][0], 'all')]
    if not (iv['k'] == 'DeclRefExpr' and iv['decl'].get('id') == d['id']):
        return None
    if loop_var_modified_in(fn, d['id'], fn.descendants(n['body'])) or loop_var_modified_in(fn, d['id'], fn.descendants(bound)):
        return None
    s = fn.nodes[fn.strip(d['init'], 'all')]
    return {'var': d['id'], 'name': d['name'], 'start': d['init'], 'start_cv': s.get('cv'), 'op': op,
            'bound': bound, 'body': n['body'], 'vartype': d['type'], 'for': fid, 'cond': n['cond'],
            'signed': d.get('tc') == 's'}


def enclosing_fors(fn, nid):
    out = []
    for p in fn.ancestors(nid):
        if fn.nodes[p]['k'] == 'ForStmt':
            # only if nid is inside the body (not the header)
            if nid in fn.descendants(fn.nodes[p]['body']) or nid == fn.nodes[p]['body']:
                out.append(p)
    return out


def loops_around(fn, nid, R):
    """enclosing counted loops (innermost first), index loops in normal form over [0, bound) and
    range-for loops alike: dicts(name, bound (rendering of the trip count), kind, node)"""
    out = []
    for p in fn.ancestors(nid):
        n = fn.nodes[p]
        if n['k'] == 'ForStmt' and (nid in fn.descendants(n['body']) or nid == n['body']):
            lf = normal_for(fn, p)
            if lf and lf['start_cv'] == '0' and lf['op'] == '<':
                out.append({'name': lf['name'], 'bound': R.render(lf['bound']), 'kind': 'for', 'node': p})
            elif lf:
                # a counted loop that demonstrably does not run over [0, bound)
                out.append({'name': None, 'bound': None, 'kind': 'partial', 'node': p, 'partial_name': lf['name'],
                            'why': 'starts at %s and runs while %s %s' % (lf['start_cv'] if lf['start_cv'] is not None else R.render(lf['start']), lf['op'], R.render(lf['bound']))})
            else:
                out.append({'name': None, 'bound': None, 'kind': 'other', 'node': p})
        elif n['k'] == 'CXXForRangeStmt' and 'body' in n and (nid in fn.descendants(n['body']) or nid == n['body']):
            lv = n.get('loopvar') or {}
            out.append({'name': lv.get('name'), 'bound': R.render(n['range']) + '.size' if 'range' in n else None, 'kind': 'range', 'node': p})
        elif n['k'] in ('WhileStmt', 'DoStmt'):
            out.append({'name': None, 'bound': None, 'kind': 'other', 'node': p})
    return out


def descending_for(fn, fid):
    """for (T i = START; i > 0; --i) with i not otherwise modified  ->  dict(var, name, start node, body) or None"""
    n = fn.nodes[fid]
    if n['k'] != 'ForStmt' or 'init' not in n or 'cond' not in n or 'inc' not in n:
        return None
    init = fn.nodes[n['init']]
    if init['k'] != 'DeclStmt' or len(init['decls']) != 1 or 'init' not in init['decls'][0]:
        return None
    d = init['decls'][0]
    cond = fn.nodes[fn.strip(n['cond'], 'all')]
    if cond['k'] != 'BinaryOperator':
        return None
    l = fn.nodes[fn.strip(cond['ch'][0], 'all')]
    r = fn.nodes[fn.strip(cond['ch'][1], 'all')]
    ok = False
    if l['k'] == 'DeclRefExpr' and l['decl'].get('id') == d['id'] and ((cond['op'] in ('>', '!=') and r.get('cv') == '0') or (cond['op'] == '>=' and r.get('cv') == '1')):
        ok = True
    if r['k'] == 'DeclRefExpr' and r['decl'].get('id') == d['id'] and ((cond['op'] in ('<', '!=') and l.get('cv') == '0') or (cond['op'] == '<=' and l.get('cv') == '1')):
        ok = True
    if not ok or d.get('tc') != 'u':
        return None
    inc = fn.nodes[fn.strip(n['inc'], 'all')]
    if not (inc['k'] == 'UnaryOperator' and inc['op'] == '--'):
        return None
    iv = fn.nodes[fn.strip(inc['ch'][0], 'all')]
    if not (iv['k'] == 'DeclRefExpr' and iv['decl'].get('id') == d['id']):
        return None
    if loop_var_modified_in(fn, d['id'], fn.descendants(n['body'])):
        return None
    return {'var': d['id'], 'name': d['name'], 'start': d['init'], 'body': n['body'], 'for': fid}


def iterator_for(fn, fid, R):
    """for (auto it = X.begin(); it != X.end(); ++it) with `it` not otherwise modified
    -> dict(name, range rendering X, node) or None"""
    n = fn.nodes[fid]
    if n['k'] != 'ForStmt' or 'init' not in n or 'cond' not in n or 'inc' not in n:
        return None
    init = fn.nodes[n['init']]
    if init['k'] != 'DeclStmt' or len(init['decls']) != 1 or 'init' not in init['decls'][0]:
        return None
    d = init['decls'][0]
    if '_iterator' not in d.get('type', ''):
        return None
    b = fn.nodes[fn.strip(d['init'], 'all')]
    if not (b['k'] == 'CXXMemberCallExpr' and b['callee']['name'] in ('begin', 'cbegin') and b.get('obj') is not None):
        return None
    cond = fn.nodes[fn.strip(n['cond'], 'all')]
    if not (cond['k'] == 'CXXOperatorCallExpr' and cond.get('op') in ('!=', '<') and len(cond.get('args', [])) == 2):
        return None
    l = fn.nodes[fn.strip(cond['args'][0], 'all')]
    r = fn.nodes[fn.strip(cond['args'][1], 'all')]
    if l['k'] != 'DeclRefExpr' or l['decl'].get('id') != d['id']:
        return None
    if not (r['k'] == 'CXXMemberCallExpr' and r['callee']['name'] in ('end', 'cend') and r.get('obj') is not None and R.render(r['obj']) == R.render(b['obj'])):
        return None
    inc = fn.nodes[fn.strip(n['inc'], 'all')]
    if not (inc['k'] == 'CXXOperatorCallExpr' and inc.get('op') == '++'):
        return None
    iv = fn.nodes[fn.strip(inc['args'][0], 'all')]
    if not (iv['k'] == 'DeclRefExpr' and iv['decl'].get('id') == d['id']):
        return None
    for x in fn.descendants(n['body']):
        m = fn.nodes[x]
        if m['k'] == 'CXXOperatorCallExpr' and m.get('op') in ('++', '--', '+=', '-=', '=') and m.get('args'):
            t = fn.nodes[fn.strip(m['args'][0], 'all')]
            if t['k'] == 'DeclRefExpr' and t['decl'].get('id') == d['id']:
                return None
    return {'name': d['name'], 'range': R.render(b['obj']), 'range_node': b['obj'], 'var': d['id'], 'body': n['body'], 'for': fid}
