"""C03 — saved files are valid for any other reader (writer vs the layout table)."""
from result import Result
import codec_rules as CR


def run(prog, tier):
    res = Result('C03', tier,
                 'The writer\'s I/O sequence is matched against the C3D layout table: header fields by cumulative offset incl. the in-memory type each '
                 'is emitted from; every blank slot (group/parameter next-offset, block count, POINT:DATA_START) is patched once, no wider than the slot, '
                 'and the stream is re-positioned to the remembered end; the zero padding count is 512 - pos % 512 (interval [1,512]: terminator always '
                 'present, section ends on a block boundary); names upper-case, lock = sign of the name length, position i <-> id -(i+1), unnamed '
                 'placeholder groups skipped; every header word derived from other sections is synchronised by updateHeader.',
                 assumptions=['spec/c3d_layout.json transcribes the C3D layout correctly'],
                 not_decided=['that the patched numbers are right for each of the 512 alignment residues (arithmetic over run-time positions)',
                              'the exact float count of the data section'])
    CR.header_writer_rule(prog, res, int_scale_ok=False)
    CR.parameters_writer_rule(prog, res)
    CR.group_writer_rule(prog, res)
    CR.parameter_writer_rule(prog, res)
    CR.frame_writer_rule(prog, res)
    CR.default_scale_rule(prog, res)
    CR.toupper_rule(prog, res)
    CR.header_sync_rule(prog, res)
    # word 3 (analog measurements per frame) = channels x sub-frames is maintained by the header's own setters
    import p_c05
    p_c05.derived_rule(prog, res, 'header-sync/derived')
    # header counts agree with the POINT/ANALOG parameters: the updater's decision table (finite models)
    p_c05.sync_table_rule(prog, res)
    # the data section holds header.points x frames records only when every frame received the same columns
    import p_c06
    p_c06.column_rules(prog, res, rule='data-uniform')
    # ... and only while no two stored frames share their points / analogs (a column added to one then lands in both)
    import p_c08
    p_c08.ownership_rules(prog, res, rule_prefix='data-uniform/ownership')
    # the header / parameter counts are those of the data only if every mutator ends in the updaters
    p_c05.updater_reach_rule(prog, res)
    # the file holds this save only: the destination is truncated when it is opened
    import p_c14
    p_c14.fresh_file_rule(prog, res, rule='file-extent')
    # a CHAR cell is dimension[0] bytes wide: the setter must declare the longest stored string
    import p_c09
    p_c09.longest_string_rule(prog, res, 'cell-width/declared')
    return res
