"""Validator helpers: functions whose only job is to refuse (`if (cond) throw T;` ...) and then
return normally, possibly handing back a value.  A call of such a helper that returns normally
establishes the negation of each of its conditions, with the helper's parameters replaced by the
caller's arguments - exactly as if the `if (...) throw` were written at the call site.

summary(prog, usr)        -> [(cond node, throw type)] or None when the function is not a validator
virtual_guards(prog, f)   -> [{'call': node id of the call in f, 'callee': Func, 'cond': node id in the callee,
                               'render': condition rendered in the caller's terms, 'throw_t': type}]
"""
import re
from paths import Renderer
import effects as FX

_cache = {}


def _only_throws(f, i):
    n = f.nodes[f.strip(i, 'noop')]
    if n['k'] == 'CompoundStmt':
        return bool(n['ch']) and all(_only_throws(f, c) for c in n['ch'][-1:]) and \
            all(f.nodes[f.strip(c, 'all')]['k'] in ('DeclStmt', 'CXXThrowExpr') or _pure_stmt(f, c) for c in n['ch'][:-1])
    n2 = f.nodes[f.strip(i, 'all')]
    return n2['k'] == 'CXXThrowExpr'


def _pure_stmt(f, i):
    n = f.nodes[f.strip(i, 'all')]
    return n['k'] in ('DeclStmt', 'NullStmt')


def summary(prog, usr):
    key = (id(prog), usr)
    if key in _cache:
        return _cache[key]
    _cache[key] = None
    f = prog.funcs.get(usr)
    if f is None or f.implicit or f.body is None or f.kind in ('ctor', 'dtor'):
        return None
    body = f.nodes[f.body]
    if body['k'] != 'CompoundStmt':
        return None
    guards = []      # (cond node, throw type, throws_when): the helper throws when cond has value throws_when
    stmts = list(body['ch'])
    # shape 2:  if (ok) return [v];  throw T(...);
    real = [c for c in stmts if f.nodes[c]['k'] != 'DeclStmt']
    if len(real) == 2 and f.nodes[real[0]]['k'] == 'IfStmt' and 'else' not in f.nodes[real[0]] and \
            f.nodes[f.strip(real[1], 'all')]['k'] == 'CXXThrowExpr':
        i0 = f.nodes[real[0]]
        th = f.nodes[f.strip(i0['then'], 'noop')]
        thl = f.nodes[th['ch'][-1]] if th['k'] == 'CompoundStmt' and th['ch'] else th
        if thl['k'] == 'ReturnStmt' and not any(f.nodes[x]['k'] == 'CXXThrowExpr' for x in f.descendants(i0['then'])):
            guards.append((i0['cond'], f.nodes[f.strip(real[1], 'all')].get('throw_t'), False))
            stmts = []
    for c in stmts:
        n = f.nodes[c]
        if n['k'] == 'IfStmt' and 'else' not in n and _only_throws(f, n['then']):
            ths = [f.nodes[x] for x in f.descendants(n['then']) if f.nodes[x]['k'] == 'CXXThrowExpr']
            guards.append((n['cond'], ths[0].get('throw_t'), True))
        elif n['k'] == 'DeclStmt':
            continue
        elif n['k'] == 'ReturnStmt':
            continue
        else:
            return None
    if not guards:
        return None
    # no effect on anything but its own locals
    E = FX.get(prog)
    if [e for e in E.events_of(f) if e[1] != 'local' and e[3] != 'io']:
        return None
    _cache[key] = guards
    return guards


def virtual_guards(prog, f, R=None):
    c = getattr(f, '_virtual_guards', None)
    if c is not None:
        return c
    from codec import substitute
    R = R or Renderer(f)
    out = []
    for n in f.calls():
        cal = n['callee']
        if not cal.get('inrepo') or n['k'] in ('CXXConstructExpr', 'CXXTemporaryObjectExpr'):
            continue
        sm = summary(prog, cal['usr'])
        if not sm:
            continue
        cf = prog.funcs[cal['usr']]
        Rc = Renderer(cf)
        sub = {}
        obj = f.call_obj(n)
        if obj is not None:
            sub['this'] = R.render(obj)
        for i, a in enumerate(f.call_args(n)):
            r = R.render(a)
            sub['arg%d' % i] = r
        for cond, tt, when in sm:
            out.append({'call': n['id'], 'callee': cf, 'cond': cond, 'render': substitute(Rc.render(cond), sub), 'throw_t': tt, 'subst': sub, 'throws_when': when})
    f._virtual_guards = out
    return out


def after_return_atoms(prog, vg, uncast):
    """what holds in the caller after the helper returned normally"""
    return cond_atoms(prog, vg, not vg['throws_when'], uncast)


def throw_atoms(prog, vg, uncast):
    """what holds when the helper throws"""
    return cond_atoms(prog, vg, vg['throws_when'], uncast)


def cond_atoms(prog, vg, truth, uncast):
    """atomic comparisons (l, op, r, node) established when the virtual guard's condition has value
    `truth`, in the caller's terms"""
    from codec import substitute
    import indexsites
    cf = vg['callee']
    Rc = Renderer(cf)
    out = []
    indexsites.atoms_of_cond(cf, Rc, vg['cond'], truth, out)
    return [(uncast(substitute(l, vg['subst'])), op, uncast(substitute(r, vg['subst'])), vg['call']) for l, op, r, _ in out]


_rcache = {}


def reason_summary(prog, usr):
    """a checker that reports instead of throwing: the body is a sequence of `if (cond) return <something>;` (and
    declarations, loops) ending in `return nullptr / 0 / false / ""`; a null result establishes the negation of every
    top-level condition.  -> [cond node] or None"""
    key = (id(prog), usr)
    if key in _rcache:
        return _rcache[key]
    _rcache[key] = None
    f = prog.funcs.get(usr)
    if f is None or f.implicit or f.body is None or f.kind in ('ctor', 'dtor'):
        return None
    if not (f.rec.get('internal') or '(anonymous namespace)' in f.qname or f.rec.get('access') in ('private', 'protected')):
        return None
    body = f.nodes[f.body]
    if body['k'] != 'CompoundStmt' or not body['ch']:
        return None
    last = f.nodes[body['ch'][-1]]
    if last['k'] != 'ReturnStmt' or not last.get('ch'):
        return None
    lv = f.nodes[f.strip(last['ch'][0], 'all')]
    null = lv['k'] in ('CXXNullPtrLiteralExpr', 'GNUNullExpr') or (lv.get('cv') is not None and str(lv.get('cv')) in ('0', 'False', 'false')) or \
        (lv['k'] == 'CXXBoolLiteralExpr' and not lv.get('v'))
    if not null:
        return None
    guards = []
    for c in body['ch'][:-1]:
        n = f.nodes[c]
        if n['k'] == 'IfStmt' and 'else' not in n:
            th = f.nodes[f.strip(n['then'], 'noop')]
            thl = f.nodes[th['ch'][-1]] if th['k'] == 'CompoundStmt' and th['ch'] else th
            if thl['k'] == 'ReturnStmt' and thl.get('ch'):
                rv = f.nodes[f.strip(thl['ch'][0], 'all')]
                if rv['k'] not in ('CXXNullPtrLiteralExpr', 'GNUNullExpr') and not (rv.get('cv') is not None and str(rv.get('cv')) in ('0', 'False', 'false')):
                    guards.append(n['cond'])
                    continue
            return None
        if n['k'] in ('DeclStmt', 'ForStmt', 'WhileStmt', 'CXXForRangeStmt', 'NullStmt'):
            continue
        return None
    if not guards:
        return None
    E = FX.get(prog)
    if [e for e in E.events_of(f) if e[1] != 'local' and e[3] != 'io']:
        return None
    _rcache[key] = guards
    return guards


def reason_call(prog, f, i):
    """node i (or the single-definition local it names) is the result of a call of a reason-returning checker
    -> (call node, callee Func, guards) or None"""
    from paths import local_init
    n = f.nodes[f.strip(i, 'all')]
    hops = 0
    while n['k'] == 'DeclRefExpr' and n['decl'].get('dk') == 'local' and hops < 2:
        ini = local_init(f, n['decl']['id'])
        if ini is None:
            return None
        n = f.nodes[f.strip(ini, 'all')]
        hops += 1
    while n['k'] in ('CXXConstructExpr', 'ExprWithCleanups', 'MaterializeTemporaryExpr', 'ImplicitCastExpr') and (n.get('args') or n.get('ch')):
        n = f.nodes[f.strip((n.get('args') or n.get('ch'))[0], 'all')]
    if n['k'] not in ('CallExpr', 'CXXMemberCallExpr') or not n.get('callee', {}).get('inrepo'):
        return None
    gs = reason_summary(prog, n['callee']['usr'])
    if not gs:
        return None
    return n, prog.funcs[n['callee']['usr']], gs


_ccache = {}


def count_helper(prog, usr):
    """a file-local / private helper  H(const std::vector<T>& v)  that returns the number of elements announced by v:
    0 when v is empty, otherwise the product of its entries (std::accumulate from 1 with a multiplying operation, or the
    running-product loop).  -> index of the vector parameter, or None"""
    key = (id(prog), usr)
    if key in _ccache:
        return _ccache[key]
    _ccache[key] = None
    f = prog.funcs.get(usr)
    if f is None or f.implicit or f.body is None or len(f.params) != 1 or 'std::vector<' not in f.params[0]['type']:
        return None
    if not (f.rec.get('internal') or '(anonymous namespace)' in f.qname or f.rec.get('access') in ('private', 'protected')):
        return None
    if f.rec.get('ret') in ('void',):
        return None
    R = Renderer(f)
    body = f.nodes[f.body]
    empty_zero = False
    prod = False
    for c in body['ch']:
        n = f.nodes[c]
        if n['k'] == 'IfStmt' and 'else' not in n and R.render(n['cond']).replace('(bool)', '') in ('arg0.empty()', '(arg0.size == 0)', '!(arg0.size > 0)', '(0 == arg0.size)', '!(arg0.size != 0)'):
            rs = [f.nodes[x] for x in sorted(set([n['then']] + list(f.descendants(n['then'])))) if f.nodes[x]['k'] == 'ReturnStmt']
            if len(rs) == 1 and rs[0].get('ch') and str(f.nodes[f.strip(rs[0]['ch'][0], 'all')].get('cv')) == '0':
                empty_zero = True
    for c in f.calls():
        if c['callee'].get('qname') == 'std::accumulate' and len(f.call_args(c)) == 4:
            a = [R.render(x).replace(' ', '') for x in f.call_args(c)]
            ini = f.nodes[f.strip(f.call_args(c)[2], 'all')]
            op = f.nodes[f.strip(f.call_args(c)[3], 'all')]
            mult = 'multiplies' in a[3] or any(f.nodes[x]['k'] == 'BinaryOperator' and f.nodes[x].get('op') == '*' for x in f.descendants(f.call_args(c)[3]))
            if a[0] == 'arg0.begin()' and a[1] == 'arg0.end()' and str(ini.get('cv')) == '1' and mult:
                prod = True
    if empty_zero and prod:
        _ccache[key] = 0
    return _ccache[key]
