"""C08 — stored data is independent of the caller's objects and of other frames.

Ownership analysis.  A class whose copy operations alias a handle (shared_ptr / raw pointer member,
implicit copy) is an *aliasing* class; every copy of an aliasing class object must land in a local
or temporary, never in storage reachable from an object (a field, an element of a field container,
a by-reference out parameter).  Handles themselves are only ever assigned from a fresh allocation.
Payload classes must be value-only so that their copies are deep."""
from facts import AnalysisBroken, CALL_KINDS
from result import Result
from paths import local_init, root_of
import p_c18 as _c18  # field_writes / contains_new
import effects as FX

PAYLOAD = ['ezc3d::DataNS::Points3dNS::Points', 'ezc3d::DataNS::Points3dNS::Point',
           'ezc3d::DataNS::AnalogsNS::Analogs', 'ezc3d::DataNS::AnalogsNS::SubFrame',
           'ezc3d::DataNS::AnalogsNS::Channel', 'ezc3d::ParametersNS::GroupNS::Parameter',
           'ezc3d::ParametersNS::GroupNS::Group']

# std::vector<T> members by what they do with T objects handed in
VEC_COPY_IN = {'push_back', 'insert', 'assign', 'emplace', 'emplace_back', 'operator=', 'swap', 'vector'}
VEC_NEUTRAL = {'size', 'at', 'operator[]', 'empty', 'begin', 'end', 'cbegin', 'cend', 'back', 'front',
               'reserve', 'capacity', 'clear', 'pop_back', 'erase', 'data', 'shrink_to_fit', 'rbegin', 'rend',
               'max_size', '~vector'}


def handle_fields(c):
    return [f for f in c['fields'] if f['own'] != 'value']


def copy_is_fresh(prog, cls, which):
    """user-provided copy ctor / copy assignment of cls that allocates a fresh pointee for every
    handle field"""
    c = prog.classes[cls]
    hs = handle_fields(c)
    for f in prog.funcs.values():
        if f.cls != cls or f.implicit:
            continue
        if which == 'ctor' and not (f.kind == 'ctor' and f.rec.get('copy')):
            continue
        if which == 'assign' and not f.rec.get('copyassign'):
            continue
        ok = True
        for h in hs:
            ws = [(g, nid, rhs) for g, nid, rhs in _c18.field_writes(prog, cls, h['name']) if g is f]
            if not ws or not all(rhs is not None and _c18.contains_new(g, rhs) for g, nid, rhs in ws):
                ok = False
        if ok:
            return True
    return False


def aliasing_classes(prog):
    """{class qname: {'ctor': bool aliasing, 'assign': bool aliasing, 'copyable': bool}}"""
    out = {}
    for q, c in prog.classes.items():
        hs = handle_fields(c)
        if not hs:
            continue
        noncopyable = any(b.startswith('std::basic_fstream') or b.startswith('std::basic_ios') for b in c['bases'])
        deleted = False
        for m in c['methods']:
            if (m.get('copy') or m.get('copyassign')) and m.get('deleted'):
                deleted = True
        if noncopyable or deleted:
            out[q] = {'ctor': False, 'assign': False, 'copyable': False, 'handles': [h['name'] for h in hs]}
            continue
        out[q] = {'ctor': not copy_is_fresh(prog, q, 'ctor'), 'assign': not copy_is_fresh(prog, q, 'assign'),
                  'copyable': True, 'handles': [h['name'] for h in hs]}
    # transitive: a class holding an aliasing class by value (directly or in a std::vector) and
    # relying on implicit copy operations aliases as well
    changed = True
    while changed:
        changed = False
        for q, c in prog.classes.items():
            if q in out:
                continue
            for f in c['fields']:
                t = f['type']
                for a, v in list(out.items()):
                    if v['copyable'] and (v['ctor'] or v['assign']) and (t == a or t == 'std::vector<%s>' % a):
                        sp = c['special']
                        out[q] = {'ctor': not sp['user_copy_ctor'], 'assign': not sp['user_copy_assign'], 'copyable': True,
                                  'handles': [], 'via': f['name']}
                        changed = True
                        break
                if q in out:
                    break
    return out


def is_fresh_temp(f, i, cls):
    """expression is a freshly default-constructed temporary of cls: cls() / cls{}"""
    i = f.strip(i, 'noop')
    n = f.nodes[i]
    while n['k'] in ('CXXFunctionalCastExpr', 'MaterializeTemporaryExpr', 'CXXBindTemporaryExpr', 'ExprWithCleanups') and n['ch']:
        n = f.nodes[f.strip(n['ch'][0], 'noop')]
    if n['k'] in ('CXXTemporaryObjectExpr', 'CXXConstructExpr') and n['callee'].get('class') == cls:
        if n['callee'].get('default') or (not n['args']):
            return True
        # move/copy of a fresh temporary
        if len(n['args']) == 1 and (n['callee'].get('copy') or n['callee'].get('move')):
            return is_fresh_temp(f, n['args'][0], cls)
    return False


def is_fresh_local(f, i, cls, consumer):
    """expression is (std::move of) a local object of cls that was default-constructed in this function
    and is only touched through cls's own methods (which replace handles by fresh allocations - judged by
    the fresh-handle / no-write-through rules) before it is handed to `consumer`: nobody else holds its payload"""
    n = f.nodes[f.strip(i, 'all')]
    if n['k'] == 'CallExpr' and n.get('callee', {}).get('qname') == 'std::move' and n.get('args'):
        n = f.nodes[f.strip(n['args'][0], 'all')]
    if n['k'] != 'DeclRefExpr' or n['decl'].get('dk') != 'local' or n['decl'].get('isref') or n['decl'].get('type', '').replace('const ', '') != cls:
        return False
    did = n['decl']['id']
    init = local_init(f, did)
    if init is not None and not is_fresh_temp(f, init, cls):
        c0 = f.nodes[f.strip(init, 'noop')]
        if not (c0['k'] == 'CXXConstructExpr' and c0['callee'].get('class') == cls and not c0.get('args')):
            return False
    for x in f.nodes:
        if x['k'] != 'DeclRefExpr' or x['decl'].get('id') != did or x['decl'].get('dk') != 'local':
            continue
        if x['id'] in f.descendants(consumer):
            continue
        ok = False
        for p_ in f.ancestors(x['id']):
            pn = f.nodes[p_]
            if pn['k'] in ('ImplicitCastExpr', 'ParenExpr', 'MemberExpr'):
                continue
            if pn['k'] == 'CXXMemberCallExpr' and pn['callee'].get('classq') == cls and f.strip(pn.get('obj', -1), 'all') == x['id']:
                ok = True
            elif pn['k'] == 'CallExpr' and pn.get('callee', {}).get('qname') == 'std::move':
                ok = True      # handed over whole on another (exclusive) path: judged at that consumer
            break
        if not ok:
            return False
    return True


def ownership_rules(prog, res, rule_prefix='own'):
    R = lambda s: s if rule_prefix == 'own' else rule_prefix
    al = aliasing_classes(prog)
    res.info['handle_classes'] = {q: v for q, v in al.items()}
    res.minimum('classes with handle members', len(al), 2)

    # (value-only) payload classes ------------------------------------------------------------
    for q in PAYLOAD:
        c = prog.classes.get(q)
        if c is None:
            raise AnalysisBroken('payload class %s vanished' % q)
        hs = handle_fields(c)
        where = '%s:%d' % (c['file'].replace(prog.repo + '/', ''), c['line'])
        if hs:
            a = al.get(q, {})
            if a.get('copyable') and (a['ctor'] or a['assign']):
                res.viol(R('value-only'), q, where,
                         'payload class has handle member(s) %s with aliasing copy: copies stored in frames share state' % [h['name'] for h in hs],
                         function='', expr=q)
                continue
        res.ok(R('value-only'), q, where, 'no pointer/reference/smart-pointer member (or deep copy operations)', function='', expr=q)

    # (fresh-handle) every write of a handle field of a copyable handle class is a fresh allocation
    nwrites = 0
    for q, a in sorted(al.items()):
        if not a['copyable']:
            continue
        for h in a['handles']:
            for f, nid, rhs in _c18.field_writes(prog, q, h):
                if f.implicit:
                    continue   # the implicit copy/move operations are what `no-alias-copy` is about
                nwrites += 1
                if rhs is not None and _c18.contains_new(f, rhs):
                    res.ok(R('fresh-handle'), '%s::%s' % (q, h), f.loc(nid), 'assigned from a fresh allocation',
                           function=f.sig, expr='%s@%d' % (h, nid))
                elif rhs is not None and [x for x in [rhs] + list(f.descendants(rhs)) if f.nodes[x]['k'] in ('CallExpr', 'CXXMemberCallExpr') and f.nodes[x].get('callee', {}).get('inrepo') and
                                          not f.nodes[x]['callee'].get('const')] and not any(f.nodes[x]['k'] == 'MemberExpr' and f.nodes[x].get('member') == h for x in f.descendants(rhs)):
                    # the value comes out of a library function the rule does not recognise as an allocation wrapper, and it is not another object's handle
                    res.undecided(R('fresh-handle'), '%s::%s' % (q, h), f.loc(nid), 'handle %s is assigned from the result of a function the rule cannot classify as a fresh allocation [shape not read by the rule]' % h,
                                  function=f.sig, expr=h)
                elif rhs is not None and root_of(f, rhs)[0] == 'local' and f.nodes[nid]['k'] == 'CXXMemberCallExpr' and f.nodes[nid]['callee']['name'] == 'swap':
                    # the handle is swapped with the handle of a local object of this function (a staging object that dies at the end of the call): ownership is
                    # taken over, not shared - provided the local's own handle was fresh, which this clause does not follow
                    res.undecided(R('fresh-handle'), '%s::%s' % (q, h), f.loc(nid), 'handle %s is swapped with the handle of a local object: whether that object held a fresh payload is not followed '
                                  '[shape not read by the rule]' % h, function=f.sig, expr=h)
                else:
                    res.viol(R('fresh-handle'), '%s::%s' % (q, h), f.loc(nid),
                             'handle %s is assigned from something that is not a fresh allocation: the object now shares its payload' % h,
                             function=f.sig, expr=h)
        # every user-provided non-copy constructor establishes all handles
        for f in prog.repo_funcs():
            if f.cls == q and f.kind == 'ctor' and not f.rec.get('copy') and not f.rec.get('move'):
                for h in a['handles']:
                    ws_ = _c18.field_writes(prog, q, h)
                    if any(g is f for g, _, _ in ws_):
                        continue
                    # ... or through a member of the class that it calls (the cloning add())
                    reach_ = prog.reachable_from([f])
                    if any(g.usr in reach_ and g.cls == q for g, _, _ in ws_):
                        res.ok(R('fresh-handle'), '%s::%s set through a member the constructor calls' % (q, h), f.loc(), function=f.sig, expr=h + ':ctor', nontrivial=False)
                        continue
                    res.viol(R('fresh-handle'), '%s::%s' % (q, h), f.loc(), 'constructor leaves the handle empty', function=f.sig, expr=h + ':ctor')
    res.minimum('handle writes in copyable handle classes', nwrites, 2)

    # (no-alias-copy) no copy of an aliasing class object lands in object-owned storage --------
    ncopies = 0
    for q, a in sorted(al.items()):
        if not a['copyable'] or not (a['ctor'] or a['assign']):
            continue
        vecq = 'std::vector<%s>' % q
        for f in prog.repo_funcs():
            for n in f.nodes:
                if n['k'] not in CALL_KINDS or 'callee' not in n:
                    continue
                c = n['callee']
                target = None
                what = None
                srcs = []
                if c.get('class') == q and ((c.get('copy') or c.get('move')) or c.get('copyassign') or c.get('moveassign')):
                    if n['k'] in ('CXXConstructExpr', 'CXXTemporaryObjectExpr'):
                        if not a['ctor']:
                            continue
                        # constructing a new object: where does it live?  find the consumer
                        target = ('construct', n['id'])
                        what = 'copy-construction of %s' % q.split('::')[-1]
                        srcs = n['args']
                    else:
                        if not a['assign']:
                            continue
                        target = ('assign', fn_obj(f, n))
                        what = 'assignment of %s' % q.split('::')[-1]
                        srcs = f.call_args(n)
                elif c.get('class') == vecq:
                    name = c['name']
                    if name in VEC_NEUTRAL:
                        continue
                    if name == 'resize':
                        if len(f.call_args(n)) == 1:
                            continue   # default-inserts fresh elements (C++11)
                        what = 'resize(n, value) copies one %s into every new element' % q.split('::')[-1]
                        target = ('assign', fn_obj(f, n))
                        srcs = f.call_args(n)[1:]
                    elif name in VEC_COPY_IN:
                        if name == 'emplace_back' and not f.call_args(n):
                            continue
                        what = 'vector<%s>::%s' % (q.split('::')[-1], name)
                        if n['k'] in ('CXXConstructExpr', 'CXXTemporaryObjectExpr'):
                            target = ('construct', n['id'])
                            if not n['args']:
                                continue
                        else:
                            target = ('assign', fn_obj(f, n))
                        srcs = f.call_args(n) if n['k'] not in ('CXXConstructExpr', 'CXXTemporaryObjectExpr') else n['args']
                    else:
                        res.undecided(R('no-alias-copy'), 'unknown vector member %s' % name, f.loc(n['id']),
                                      'closed container-member table does not know this member', function=f.sig, expr=name)
                        continue
                else:
                    continue
                ncopies += 1
                # sources that are fresh default temporaries cannot alias anything
                multi = c.get('class') == vecq and c['name'] == 'resize'   # one value copied into MANY elements: they share it among themselves
                if srcs and not multi and all(is_fresh_temp(f, s, q) for s in srcs):
                    res.ok(R('no-alias-copy'), what, f.loc(n['id']), 'source is a freshly default-constructed temporary', function=f.sig, expr='%s@%d' % (what, n['id']))
                    continue
                if srcs and not multi and all(is_fresh_local(f, s, q, n['id']) for s in srcs):
                    res.ok(R('no-alias-copy'), what, f.loc(n['id']), 'source is a local %s built in this function from fresh allocations only and handed over whole' % q.split('::')[-1],
                           function=f.sig, expr='%s@%d' % (what, n['id']))
                    continue
                if target[0] == 'assign':
                    kind, path = root_of(f, target[1]) if target[1] is not None else ('unknown', [])
                else:
                    kind, path = consumer_root(f, n['id'], q, vecq)
                if kind in ('local', 'temp', 'return'):
                    res.ok(R('no-alias-copy'), what, f.loc(n['id']), 'copy lands in a %s (%s)' % (kind, '.'.join(path)),
                           function=f.sig, expr='%s@%d' % (what, n['id']))
                elif kind == 'unknown':
                    res.undecided(R('no-alias-copy'), what, f.loc(n['id']), 'cannot resolve where the copy is stored', function=f.sig, expr=what)
                else:
                    res.viol(R('no-alias-copy'), what, f.loc(n['id']),
                             '%s into object-owned storage (%s %s): copying a %s copies its handles, the stored frame shares '
                             'points/analogs with the source' % (what, kind, '.'.join(path), q.split('::')[-1]),
                             function=f.sig, expr='%s->%s.%s' % (what, kind, '.'.join(path)))
    res.info['aliasing_copy_sites'] = ncopies

    # (write-through-copy) inside a function: a local object of an aliasing class that has been copied, or an element of a
    # local vector filled with copies of an lvalue, shares its payload with the other copies; reaching the payload through a
    # non-const accessor of such an object writes into all of them
    nwt = 0
    for q, a in sorted(al.items()):
        if not a['copyable'] or not a['handles'] or not (a['ctor'] or a['assign']):
            continue
        vecq = 'std::vector<%s>' % q
        payload_nc = set()
        for g in prog.repo_funcs():
            if g.cls == q and g.kind == 'method' and str(g.rec.get('ret', '')).endswith('&') and not str(g.rec.get('ret', '')).startswith('const '):
                payload_nc.add(g.usr)
        for f in prog.repo_funcs():
            if f.cls == q:
                continue
            for n in f.calls():
                if n['k'] != 'CXXMemberCallExpr' or n['callee'].get('usr') not in payload_nc or n.get('obj') is None:
                    continue
                o = f.nodes[f.strip(n['obj'], 'all')]
                # the object: a local of class q, or an element (back / front / [] / at) of a local vector<q>
                elem = None
                if o['k'] in ('CXXMemberCallExpr', 'CXXOperatorCallExpr') and o.get('callee', {}).get('name') in ('back', 'front', 'at', 'operator[]'):
                    base = o.get('obj') if o['k'] == 'CXXMemberCallExpr' else (o.get('args') or [None])[0]
                    if base is not None:
                        elem = f.nodes[f.strip(base, 'all')]
                what = '%s() on %s' % (n['callee']['name'], 'an element of a local vector' if elem is not None else 'a local object')
                if elem is not None and elem['k'] == 'DeclRefExpr' and elem['decl'].get('dk') == 'local' and elem['decl'].get('type', '').replace('const ', '') == vecq:
                    vid = elem['decl']['id']
                    shared = None
                    for c in f.calls():
                        if c.get('callee', {}).get('class') != vecq or c['callee']['name'] not in ('push_back', 'insert', 'assign', 'resize', 'emplace_back'):
                            continue
                        co = f.call_obj(c)
                        cn = f.nodes[f.strip(co, 'all')] if co is not None else None
                        if cn is None or cn['k'] != 'DeclRefExpr' or cn['decl'].get('id') != vid:
                            continue
                        srcs = f.call_args(c)[1:] if c['callee']['name'] == 'resize' else f.call_args(c)
                        for sx in srcs:
                            sn = f.nodes[f.strip(sx, 'all')]
                            if sn['k'] == 'DeclRefExpr' and sn['decl'].get('type', '').replace('const ', '').replace(' &', '') == q:
                                shared = (c, sn['decl']['name'])
                    nwt += 1
                    if shared:
                        res.viol(R('write-through-copy'), what, f.loc(n['id']), 'the elements of `%s` are copies of `%s` (line %d): a copied %s shares its payload with its source, so writing through %s() '
                                 'modifies every copy made from it' % (elem['decl']['name'], shared[1], f.nodes[shared[0]['id']].get('line', 0), q.split('::')[-1], n['callee']['name']),
                                 function=f.sig, expr='wt:%s' % n['callee']['name'])
                    else:
                        res.ok(R('write-through-copy'), what, f.loc(n['id']), 'no element of the vector is a copy of a named object', function=f.sig, expr='wt@%d' % n['id'], nontrivial=False)
                elif o['k'] == 'DeclRefExpr' and o['decl'].get('dk') == 'local' and not o['decl'].get('isref') and o['decl'].get('type', '').replace('const ', '') == q:
                    did = o['decl']['id']
                    g_ = f.events()
                    copied = None
                    for c in f.nodes:
                        if c['k'] not in CALL_KINDS or 'callee' not in c:
                            continue
                        cal = c['callee']
                        is_copy = (cal.get('class') == q and (cal.get('copy') or cal.get('copyassign'))) or (cal.get('class') == vecq and cal['name'] in ('push_back', 'insert', 'assign', 'resize', 'emplace_back'))
                        if not is_copy:
                            continue
                        args_ = c.get('args', []) if c['k'] in ('CXXConstructExpr', 'CXXTemporaryObjectExpr') else f.call_args(c)
                        if not any(f.nodes[f.strip(x_, 'all')]['k'] == 'DeclRefExpr' and f.nodes[f.strip(x_, 'all')]['decl'].get('id') == did for x_ in args_):
                            continue
                        # is the copy made before the write (on some path)?
                        try:
                            vs = [v_ for v_ in g_.vertices() if g_.node_of(v_) == c['id']]
                            vt = [v_ for v_ in g_.vertices() if g_.node_of(v_) == n['id']]
                            before = bool(vs and vt and vt[0] in g_.reach(vs))
                        except Exception:
                            before = c['id'] < n['id']
                        if before:
                            copied = c
                    nwt += 1
                    if copied is not None:
                        res.viol(R('write-through-copy'), what, f.loc(n['id']), '`%s` has been copied before (line %d): the copy shares its payload, so writing through %s() modifies the copy as well' %
                                 (o['decl']['name'], copied.get('line', 0), n['callee']['name']), function=f.sig, expr='wt:%s' % n['callee']['name'])
                    else:
                        res.ok(R('write-through-copy'), what, f.loc(n['id']), 'the object has not been copied when its payload is written', function=f.sig, expr='wt@%d' % n['id'], nontrivial=False)
    res.info['payload_writes_on_locals'] = nwt

    # (no-write-through) a non-const method of a handle class never modifies the payload behind a handle
    # (copies of the object share it); it may only replace the handle by a fresh payload — and the
    # whole-object replacement add(const Frame&) replaces every handle on every path
    E = FX.get(prog)
    for q, a in sorted(al.items()):
        if not a['copyable'] or not a['handles']:
            continue
        for f in prog.repo_funcs():
            if f.cls != q or f.kind != 'method' or f.rec.get('const'):
                continue
            deep = sorted({FX.fmt(e) for e in E.of(f) if e[0] == 'this' and len(e[1]) > 1 and e[1][0] in a['handles']})
            if deep:
                res.viol(R('no-write-through'), '%s::%s' % (q.split('::')[-1], f.name), f.loc(),
                         'modifies the payload behind a handle in place (%s): every copy of this %s shares that payload and changes with it' % (deep[:2], q.split('::')[-1]),
                         function=f.sig, expr='deep')
            else:
                res.ok(R('no-write-through'), '%s::%s(%s)' % (q.split('::')[-1], f.name, ','.join(p_['type'].split('::')[-1] for p_ in f.params)), f.loc(),
                       'only replaces handles', function=f.sig, expr='deep', nontrivial=False)
            # replacement by another object of the same class: all handles, unconditionally
            if len(f.params) == 1 and f.params[0]['type'].replace('const ', '').replace(' &', '') == q:
                g = f.events()
                for h in a['handles']:
                    vs = {g.vertex_of.get(e[0]) for e in E.events_of(f, 'this') if e[2] == (h,) and e[3] == 'assign'}
                    vs.discard(None)
                    if not vs or g.NEXIT in g.reach([g.ENTRY], avoid=vs):
                        res.viol(R('no-write-through'), '%s::%s replaces %s' % (q.split('::')[-1], f.name, h), f.loc(),
                                 'a path through %s(const %s&) leaves %s as it was: the target keeps part of its old content' % (f.name, q.split('::')[-1], h), function=f.sig, expr='replace:' + h)
                    else:
                        res.ok(R('no-write-through'), '%s::%s replaces %s on every path' % (q.split('::')[-1], f.name, h), f.loc(), function=f.sig, expr='replace:' + h)

    # (no-handle-leak) no public method hands out a handle --------------------------------------
    nmeth = 0
    for q, c in sorted(prog.classes.items()):
        for m in c['methods']:
            if m['access'] != 'public' or m['implicit']:
                continue
            nmeth += 1
            r = m['ret']
            if 'shared_ptr<' in r or 'unique_ptr<' in r or 'weak_ptr<' in r or (r.endswith('*') and 'ezc3d::' in r):
                res.viol(R('no-handle-leak'), m['qname'], '%s:%d' % (m['file'].replace(prog.repo + '/', ''), m['line']),
                         'public method returns a handle (%s): callers can make two objects share a payload' % r,
                         function=m['qname'], expr='ret:' + r)
    res.ok(R('no-handle-leak'), 'public methods of all classes screened', 'include/', '%d public methods, none returns a smart/raw pointer to library data' % nmeth,
           function='', expr='screen')
    res.minimum('public methods screened', nmeth, 150)


def fn_obj(f, n):
    o = f.call_obj(n)
    return o


def consumer_root(f, nid, q, vecq):
    """where a newly constructed object ends up: follow the parents of the construct expression"""
    i = nid
    for p in f.ancestors(nid):
        n = f.nodes[p]
        k = n['k']
        if k in ('ExprWithCleanups', 'MaterializeTemporaryExpr', 'CXXBindTemporaryExpr', 'ImplicitCastExpr', 'ParenExpr',
                 'CXXFunctionalCastExpr', 'CXXStaticCastExpr'):
            i = p
            continue
        if k == 'DeclStmt':
            for d in n['decls']:
                if d.get('init') is not None and (d['init'] == i or i in f.descendants(d['init'])):
                    return ('local' if d['dk'] == 'local' else d['dk']), [d['name']]
            return 'unknown', []
        if k == 'ReturnStmt':
            return 'return', []
        if k in CALL_KINDS and 'callee' in n:
            # the temporary is an argument of another call: that call is judged on its own
            return 'temp', ['argument of ' + n['callee']['name']]
        if k == 'CXXNewExpr':
            return 'heap', ['new']
        if k in ('InitListExpr', 'CXXStdInitializerListExpr'):
            i = p
            continue
        return 'unknown', [k]
    # constructor member-initialiser
    for init in f.rec.get('inits', []):
        if init['expr'] == nid or nid in f.descendants(init['expr']):
            return 'this', [init.get('field', '?')]
    return 'unknown', []


def run(prog, tier):
    res = Result('C08', tier,
                 'Ownership analysis over all functions: (value-only) payload classes have no handle members; '
                 '(fresh-handle) every write of a shared_ptr/pointer member of a copyable class is a fresh allocation '
                 'and every constructor establishes all handles; (no-alias-copy) every copy/move/assignment of an '
                 'aliasing class object (Frame) and every copying std::vector<Frame> member lands in a local or '
                 'temporary, never in storage reachable from an object; (no-handle-leak) no public method returns a handle. '
                 'Together: after every mutator each stored frame exclusively owns its points and analogs.',
                 assumptions=['users who obtain a mutable reference through the documented const-bypass accessors '
                              '(Frame::points_nonConst/analogs_nonConst) are outside the property',
                              'C++11 vector::resize(n) value-initialises each new element separately'],
                 not_decided=[])
    ownership_rules(prog, res)
    # c3d not copyable (shared with C18)
    c3d = prog.classes.get('ezc3d::c3d')
    al = aliasing_classes(prog)
    if c3d is None:
        raise AnalysisBroken('class ezc3d::c3d vanished')
    if al.get('ezc3d::c3d', {}).get('copyable'):
        res.viol('value-only', 'ezc3d::c3d', 'include/ezc3d.h:%d' % c3d['line'], 'c3d became copyable while holding section handles', function='', expr='c3d-copy')
    else:
        res.ok('value-only', 'ezc3d::c3d is not copyable', 'include/ezc3d.h:%d' % c3d['line'], function='', expr='c3d-copy')
    # "adding a point or a channel adds it exactly once to every frame": the column adders (C06's column rules)
    import p_c06
    p_c06.column_rules(prog, res, rule='once-per-frame')
    return res
