"""C16 — damaged files are refused or loaded, never crash or hang (partial claim).

std-exceptions : every throw operand derives from std::exception; no `throw;` outside a handler; no
                 noexcept function or destructor on the load path may throw; no abort/exit/terminate/assert
alloc-size     : no file-derived signed value is converted to a 32-bit unsigned length/allocation size
                 (negative values would become ~4 GiB requests); lengths are read with the format's signedness
load-index-site: every index site reachable from the loading constructor is guarded / justified / listed
recursion      : the matrix readers follow the recursion scheme (depth bounded by the dimension count, an
                 unsigned byte)
waiting-loop   : every uncounted loop on the load path owns an exit decided by the state / position of the stream
checked-read   : the result of a read from the file is not used before the stream state was looked at
                 (known finding K8: it never is; work is proportional to declared counts, not to the file)"""
import re
from facts import AnalysisBroken, CALL_KINDS
from result import Result
from paths import Renderer
import maythrow as MT
import codec_rules as CR
import indexsites

TERMINATORS = {'abort', 'exit', '_exit', 'quick_exit', 'std::abort', 'std::exit', 'std::terminate', 'std::quick_exit', '__assert_fail', '_Exit', 'std::_Exit', 'raise', 'kill'}
LENGTH_SINKS = {'readString', 'readInt', 'readUint', 'readFile', 'readParam', 'resize', 'reserve', 'read'}


def run(prog, tier):
    res = Result('C16', tier,
                 'Over the load call graph (everything reachable from c3d::c3d(const std::string&)): exception discipline (only std::exception-derived '
                 'classes are thrown, nothing can terminate); no signed-to-unsigned-32 conversion feeds a read length or allocation size; the index-site '
                 'inventory (A9) restricted to the load path; the matrix readers follow the bounded recursion scheme; lengths are read with the format\'s '
                 'signedness (same reader rules as C02/C17).',
                 assumptions=['allocation failure surfaces as std::bad_alloc / std::length_error (standard exceptions)'],
                 not_decided=['time and memory proportional to the file size: the loader never looks at the stream state after a read, so work follows the declared '
                              'counts (known finding K8, pinned by the truncated Optotrak file of the suite); a static bound on run time is out of reach'])
    ctor = prog.fn('ezc3d::c3d::c3d', nparams=1)
    load = [prog.funcs[u] for u in sorted(prog.reachable_from([ctor]))]
    res.info['load_callgraph'] = len(load)
    res.minimum('functions on the load path', len([f for f in load if not f.implicit]), 45)
    M = MT.get(prog)
    # ---- std-exceptions ------------------------------------------------------------------------
    nthrow = 0
    for f in prog.repo_funcs():
        for n in f.all_nodes({'CXXThrowExpr'}):
            nthrow += 1
            if n.get('rethrow'):
                if not any(f.nodes[a]['k'] == 'CXXCatchStmt' for a in f.ancestors(n['id'])):
                    res.viol('std-exceptions', 'throw; outside a handler', f.loc(n['id']), 'std::terminate if no exception is active', function=f.sig, expr='rethrow')
                continue
            t = n.get('throw_t')
            if t == 'std::exception' or 'std::exception' in n.get('throw_bases', []):
                res.ok('std-exceptions', 'throw %s' % t, f.loc(n['id']), function=f.sig, expr='throw@%d' % n['id'], nontrivial=False)
            else:
                res.viol('std-exceptions', 'throw %s' % t, f.loc(n['id']), 'the library throws %s, which does not derive from std::exception' % t, function=f.sig, expr='throw:%s' % t)
    res.minimum('throw expressions', nthrow, 40)
    for f in load:
        if f.rec.get('noexcept') and M.summary.get(f.usr) and not f.implicit:
            res.viol('std-exceptions', 'noexcept %s may throw' % f.name, f.loc(), 'a noexcept function on the load path may throw %s: std::terminate' % sorted(M.summary[f.usr]), function=f.sig, expr='noexcept')
        if f.kind == 'dtor' and M.summary.get(f.usr):
            res.viol('std-exceptions', 'destructor %s may throw' % f.qname, f.loc(), 'a throwing destructor terminates during unwinding', function=f.sig, expr='dtor')
        for n in f.calls():
            q = n['callee']['qname']
            if q in TERMINATORS or (not n['callee'].get('class') and n['callee']['name'] in TERMINATORS):
                res.viol('std-exceptions', q, f.loc(n['id']), 'the load path can terminate the process', function=f.sig, expr='terminate:' + q)
    res.ok('std-exceptions', 'load path screened for noexcept/destructor throws and terminating calls', 'src/', '%d functions' % len(load), function='', expr='screen')
    # ---- alloc-size ---------------------------------------------------------------------------------
    ncast = 0
    for f in load:
        if f.implicit:
            continue
        R = Renderer(f)
        for n in f.nodes:
            if n['k'] not in ('ImplicitCastExpr', 'CXXStaticCastExpr', 'CStyleCastExpr', 'CXXFunctionalCastExpr') or n.get('ck') != 'IntegralCast':
                continue
            if not (n.get('tc') == 'u' and n.get('tw') == 32):
                continue
            src = f.nodes[f.strip(n['ch'][0], 'noop')]
            if src.get('tc') != 's' or 'cv' in src:
                continue
            # does it flow into a length / allocation?
            sink = None
            for a in f.ancestors(n['id']):
                an = f.nodes[a]
                if an['k'] in CALL_KINDS and 'callee' in an and an['callee']['name'] in LENGTH_SINKS:
                    sink = an
                    break
                if an['k'] == 'CXXNewExpr':
                    sink = an
                    break
                if an['k'] in ('CompoundStmt', 'DeclStmt', 'IfStmt', 'ForStmt'):
                    break
            if sink is None:
                continue
            ncast += 1
            inner = f.nodes[f.strip(n['ch'][0], 'all')]
            txt = R.render(n['ch'][0])
            if txt.startswith('abs(') or txt.startswith('(abs(') or 'abs(' in txt.split('*')[0]:
                res.ok('alloc-size', 'length %s' % txt[:60], f.loc(n['id']), 'signed value passes through abs() before it becomes a length', function=f.sig, expr='len@%d' % n['id'])
            elif inner.get('tc') == 'e' or re.search(r'_data_type$', txt):
                res.ok('alloc-size', 'length %s' % txt[:60], f.loc(n['id']), 'enumeration constant', function=f.sig, expr='len@%d' % n['id'], nontrivial=False)
            else:
                res.viol('alloc-size', 'length %s' % txt[:60], f.loc(n['id']),
                         'a signed file-derived value is converted to a 32-bit unsigned length: a negative byte becomes a request of ~4 GiB (the format gives this length as an unsigned byte)',
                         function=f.sig, expr='len:' + re.sub(r'local:\w+', '$v', txt)[:80])
    res.ok('alloc-size', 'signed -> unsigned-32 conversions feeding lengths on the load path', 'src/', '%d found and judged' % ncast, function='', expr='screen')
    # signedness of every length field (reader rules)
    CR.group_reader_rule(prog, res, 'alloc-size/group-read')
    CR.parameter_reader_rule(prog, res, 'alloc-size/parameter-read')
    CR.parameters_reader_rule(prog, res, 'alloc-size/parameters-read')
    # ---- load-index-site ---------------------------------------------------------------------------
    n = indexsites.rule(prog, res, scope={f.usr for f in load}, rule_name='load-index-site')
    res.minimum('index sites on the load path', n, 28)
    import p_c13 as _c13
    _c13.copy_bound_rule(prog, res, scope={f.usr for f in load}, rule='load-copy-bound')
    # the scratch buffers the primitive readers fill: every caller's buffer holds what the callee writes (file-derived counts)
    _c13.buffer_contract_rule(prog, res)
    # ---- recursion -----------------------------------------------------------------------------------
    rec = indexsites.recursion_sites(prog)
    want = ['ezc3d::c3d::readParam', 'ezc3d::c3d::readParam', 'ezc3d::c3d::_readMatrix', 'ezc3d::c3d::_dispatchMatrix']
    have = sorted(prog.funcs[u].qname for u in rec if prog.funcs[u].qname in want)
    cg = prog.callgraph()
    recursive = [f for f in load if f.usr in cg.get(f.usr, ())]

    def bounded(f):
        """every recursive call passes (depth + 1) for one parameter and the unchanged dimension list for
        another, under a test of depth against the list's size: -> 'bounded' / 'same-arguments' / 'unknown'"""
        from paths import Renderer
        R = Renderer(f)
        calls = [c for c in f.calls() if c['callee']['usr'] == f.usr]
        if not calls:
            return 'bounded'
        for c in calls:
            args = [R.render(a) for a in f.call_args(c)]
            if all(a == 'arg%d' % i for i, a in enumerate(args)):
                return 'same-arguments'
        for k in range(len(f.params)):
            if not all(len(f.call_args(c)) > k and R.render(f.call_args(c)[k]) in ('(arg%d + 1)' % k, '(1 + arg%d)' % k) for c in calls):
                continue
            for j in range(len(f.params)):
                if j == k or not all(R.render(f.call_args(c)[j]) == 'arg%d' % j for c in calls):
                    continue
                tests = ('(arg%d == (arg%d.size - 1))' % (k, j), '((arg%d.size - 1) == arg%d)' % (j, k), '(arg%d != (arg%d.size - 1))' % (k, j), '(arg%d < (arg%d.size - 1))' % (k, j),
                         '((arg%d + 1) < arg%d.size)' % (k, j), '((arg%d + 1) == arg%d.size)' % (k, j), '((arg%d + 1) != arg%d.size)' % (k, j))
                good = True
                for c in calls:
                    okc = False
                    for a in f.ancestors(c['id']):
                        an = f.nodes[a]
                        if an['k'] == 'IfStmt' and R.render(an['cond']) in tests:
                            okc = True
                    # or the depth test returned before the call is reached (hoisted form)
                    if not okc:
                        import indexsites as _IS
                        okc = any((l == 'arg%d' % k and op in ('!=', '<') and r_ == '(arg%d.size - 1)' % j) for l, op, r_, _ in _IS.facts_at(f, R, c['id']))
                    good = good and okc
                if good:
                    return 'bounded'
        return 'unknown'
    verdicts = {f.usr: bounded(f) for f in recursive}
    missing = [q for q in set(want) if q not in have]
    if have == sorted(want):
        res.ok('recursion', 'matrix readers follow the recursion scheme', 'src/ezc3d.cpp', 'depth = number of dimensions (one unsigned byte), each level loops over one dimension byte', function='', expr='scheme')
    elif all(v == 'bounded' for v in verdicts.values()) and recursive:
        res.ok('recursion', 'matrix readers follow the recursion scheme', 'src/ezc3d.cpp', 'every recursive function on the load path (%s) increases its depth argument by one under a test against the size of the unchanged dimension list' %
               ', '.join(sorted({f.name for f in recursive})), function='', expr='scheme')
    elif any(v == 'same-arguments' for v in verdicts.values()):
        bad = [f for f in recursive if verdicts[f.usr] == 'same-arguments'][0]
        res.viol('recursion', 'matrix readers follow the recursion scheme', bad.loc(), '%s calls itself with unchanged arguments' % bad.qname, function='', expr='scheme')
    else:
        res.undecided('recursion', 'matrix readers follow the recursion scheme', 'src/ezc3d.cpp', 'only %s match `for (i < dim[cur]) cur == last ? leaf : recurse(cur + 1)`; the others are in a form the rule does not read [shape not read by the rule]' % have,
                      function='', expr='scheme')
    # any other recursion on the load path
    for f in recursive:
        if f.usr in rec or verdicts[f.usr] == 'bounded':
            continue
        if verdicts[f.usr] == 'same-arguments':
            res.viol('recursion', 'unbounded recursion in %s' % f.qname, f.loc(), 'recursive function on the load path that calls itself with unchanged arguments', function=f.sig, expr='rec:' + f.qname)
        else:
            res.undecided('recursion', 'recursion in %s' % f.qname, f.loc(), 'recursive function on the load path whose depth bound the rule cannot read [shape not read by the rule]', function=f.sig, expr='rec:' + f.qname)
    # ---- the load path never hides a failed read: clear()/setstate on the file stream make the end of a
    # short file invisible to the loops that wait for it
    nclear = 0
    for f in load:
        if f.cls != 'ezc3d::c3d':
            continue
        for n in f.calls():
            if n['k'] == 'CXXMemberCallExpr' and n['callee']['name'] in ('clear', 'setstate') and n['callee'].get('classq', '').startswith(('std::basic_ios', 'std::ios_base', 'std::basic_istream', 'std::basic_fstream')):
                o = f.nodes[f.strip(n['obj'], 'all')] if n.get('obj') is not None else None
                if o is not None and o['k'] == 'CXXThisExpr':
                    nclear += 1
                    res.viol('checked-read', 'c3d::%s clears the stream state' % f.name, f.loc(n['id']),
                             'the loader resets the state of the file stream: end-of-file / failure is no longer visible to the code that waits for it (the leading-zero loop of the header '
                             'reader never ends on an empty or all-zero file)', function=f.sig, expr='clear:' + f.name)
    res.ok('checked-read', 'the load path never clears the state of the file stream', 'src/', '%d clear()/setstate() calls on the stream' % nclear, function='', expr='no-clear', nontrivial=False)
    # ---- waiting loops: a loop on the load path that is not a counted `for` waits for something the file
    # must deliver; on a short (or empty) file every read returns stale bytes, so the loop must own an exit
    # (throw / break / return) decided by the state or the position of the stream
    STATE = {'eof', 'fail', 'good', 'bad', 'tellg', 'gcount', 'operator!', 'operator bool', 'peek'}
    nwait = 0
    for f in load:
        if f.implicit:
            continue
        for n in f.all_nodes({'WhileStmt', 'DoStmt', 'ForStmt'}):
            if n['k'] == 'ForStmt' and n.get('inc') is not None and n.get('cond') is not None:
                continue
            nwait += 1

            def state_test(cid):
                if cid is None:
                    return False
                for d in [cid] + list(f.descendants(cid)):
                    dn = f.nodes[d]
                    if dn['k'] in CALL_KINDS and 'callee' in dn and dn['callee']['name'] in STATE:
                        return True
                    # a local that was set from the stream position / state just before
                    if dn['k'] == 'DeclRefExpr' and dn.get('decl') is not None:
                        for m in f.nodes:
                            if m['k'] == 'VarDecl' and m['id'] == dn.get('decl') and m.get('init') is not None:
                                for d2 in [m['init']] + list(f.descendants(m['init'])):
                                    d2n = f.nodes[d2]
                                    if d2n['k'] in CALL_KINDS and 'callee' in d2n and d2n['callee']['name'] in STATE:
                                        return True
                return False
            exits = []
            if state_test(n.get('cond')):
                exits.append('loop condition')
            for d in f.descendants(n['body']) if n.get('body') is not None else []:
                dn = f.nodes[d]
                if dn['k'] != 'IfStmt' or not state_test(dn.get('cond')):
                    continue
                for br in (dn.get('then'), dn.get('else')):
                    if br is None:
                        continue
                    if any(f.nodes[x]['k'] in ('CXXThrowExpr', 'BreakStmt', 'ReturnStmt') for x in [br] + list(f.descendants(br))):
                        exits.append('line %d' % dn.get('line', 0))
            reads = [d for d in ([n['cond']] if n.get('cond') is not None else []) + list(f.descendants(n['id']))
                     if f.nodes[d]['k'] in CALL_KINDS and 'callee' in f.nodes[d] and f.nodes[d]['callee']['name'] in ('readInt', 'readUint', 'readFloat', 'readString', 'readFile', 'read')]
            inst = 'waiting loop in %s' % f.qname.split('::')[-1]
            if exits:
                res.ok('waiting-loop', inst, f.loc(n['id']), 'the loop owns an exit decided by the state / position of the stream (%s)' % ', '.join(exits[:3]), function=f.sig, expr='wait:' + f.name)
            elif reads:
                res.viol('waiting-loop', inst, f.loc(n['id']), 'the loop reads from the file until a value arrives and has no exit decided by the state or position of the stream: '
                         'on an empty or short file every read returns stale bytes and the loop never ends', function=f.sig, expr='wait:' + f.name)
            else:
                res.undecided('waiting-loop', inst, f.loc(n['id']), 'uncounted loop on the load path whose progress the rule cannot read [shape not read by the rule]', function=f.sig, expr='wait:' + f.name)
    res.info['waiting_loops'] = nwait
    res.minimum('uncounted loops on the load path', nwait, 1)
    # ---- integer division on the load path: the divisor is tested against zero before (SIGFPE is not an exception)
    ndiv = 0
    for f in load:
        if f.implicit:
            continue
        Rd = None
        for n in f.all_nodes({'BinaryOperator', 'CompoundAssignOperator'}):
            if n.get('op') not in ('/', '%', '/=', '%='):
                continue
            d = f.nodes[f.strip(n['ch'][1], 'all')]
            if d.get('cv') is not None or n.get('tc') == 'f' or d.get('tc') == 'f' or f.nodes[f.strip(n['ch'][0], 'all')].get('tc') == 'f':
                continue
            Rd = Rd or Renderer(f)
            D = indexsites.uncast(Rd.render(n['ch'][1]))
            ndiv += 1
            fa = [(l_, op_, r_) for l_, op_, r_, _x in indexsites.facts_at(f, Rd, n['id']) if D in (l_, r_)]
            nz = any((l_ == D and ((op_ == '!=' and r_ == '0') or (op_ == '>' and re.match(r'^\d+$', r_)) or (op_ == '>=' and re.match(r'^[1-9]\d*$', r_)))) or
                     (r_ == D and ((op_ == '!=' and l_ == '0') or (op_ == '<' and re.match(r'^\d+$', l_)))) for l_, op_, r_ in fa)
            inst = 'integer division by %s in %s' % (D[-50:], f.qname.split('::')[-1])
            if nz:
                res.ok('zero-divisor', inst, f.loc(n['id']), 'the divisor is tested against zero before the division', function=f.sig, expr='div:' + D[-60:])
            else:
                zt = [x for x in indexsites.facts_at(f, Rd, n['id']) if x[1] in ('!=', '>') and x[2] == '0']
                if zt:
                    res.viol('zero-divisor', inst, f.loc(n['id']), 'the division is guarded by %s %s 0, not by a test of its divisor %s: a file in which only the divisor is zero stops the process with SIGFPE' %
                             (zt[0][0], zt[0][1], D), function=f.sig, expr='div:' + D[-60:])
                else:
                    res.undecided('zero-divisor', inst, f.loc(n['id']), 'no test of the divisor against zero is visible before the division [no proof found]', function=f.sig, expr='div:' + D[-60:])
    res.info['integer_divisions_on_load_path'] = ndiv
    # ---- strings handed back by readString end at the first NUL: offsets / counts into them need a test of their size
    import p_c13
    p_c13.cstring_cut_rule(prog, res, rule='load-string-width')
    # ---- checked-read --------------------------------------------------------------------------------
    rf = prog.fn('ezc3d::c3d::readFile', nparams=4)
    reads = [c for c in rf.calls() if c['callee']['name'] == 'read' and c['callee'].get('classq', '').startswith('std::basic_istream')]
    tests = [c for c in rf.calls() if c['callee']['name'] in ('fail', 'good', 'eof', 'bad', 'gcount', 'operator!', 'operator bool', 'exceptions')]
    if reads and not tests:
        res.viol('checked-read', 'c3d::readFile', rf.loc(reads[0]['id']),
                 'the bytes delivered by read() are used without looking at the stream state: past the end of a truncated file every read returns the previous buffer content and '
                 'the loader keeps iterating over the declared counts', function=rf.sig, expr='unchecked-read')
    else:
        res.ok('checked-read', 'c3d::readFile', rf.loc(), 'stream state is examined after read()', function=rf.sig, expr='unchecked-read')
    return res
