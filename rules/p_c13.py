"""C13 — no memory error on any valid use (necessary structural conditions).

new-delete      : array form of every delete matches the new expressions stored to the same path; every
                  local new[] is deleted on all normal paths
buffer-contract : readFile(n, c) writes c[0..n]; every caller passes a buffer of n+1 bytes for the same n
index-site      : every subscript / front / back / pop_back / raw dereference is guarded by a known idiom,
                  justified by a verified invariant, or a listed finding (rules in indexsites.py)
string-width    : write(s.c_str(), n) only with n == s.size() (shared with C14)
dangling        : no function returns a reference/pointer to a local, by-value parameter or temporary
raw-owner       : a class with an owning raw pointer member is not copyable
reloc-stable    : classes stored by value in growing member vectors keep an implicit/explicit move
                  constructor, so reallocation does not free the buffers their elements own"""
import re
from facts import AnalysisBroken, CALL_KINDS
from result import Result
from paths import Renderer, root_of, local_init
import effects as FX
import poly as P
import p_c18 as _c18
import p_c08 as _c08
import p_c14 as _c14


def new_delete_rule(prog, res):
    nnew = ndel = 0
    news = {}     # path key -> list of (f, nid, array)
    for f in prog.repo_funcs():
        for n in f.all_nodes({'CXXNewExpr'}):
            nnew += 1
            # where is the result stored?
            key = None
            for ini in f.rec.get('inits', []):
                if ini.get('field') and ini.get('written') and n['id'] in f.descendants(ini['expr']):
                    fl = [x for x in prog.classes.get(f.cls, {}).get('fields', []) if x['name'] == ini['field']]
                    if fl and re.match(r'^std::(unique_ptr|shared_ptr)<', fl[0]['type']):
                        key = ('smart', f.usr, ini['field'], fl[0]['type'])
                    else:
                        key = ('field', f.cls, (ini['field'],))
            for p in (f.ancestors(n['id']) if key is None else []):
                pn = f.nodes[p]
                if pn['k'] == 'DeclStmt':
                    for d in pn['decls']:
                        if d.get('init') is not None and n['id'] in f.descendants(d['init']):
                            if re.match(r'^(const )?std::(unique_ptr|shared_ptr)<', d.get('type', '')):
                                key = ('smart', f.usr, d['name'], d['type'])
                            else:
                                key = ('local', f.usr, d['id'], d['name'])
                    break
                if pn['k'] == 'BinaryOperator' and pn['op'] == '=':
                    kind, path = root_of(f, pn['ch'][0])
                    if kind == 'this':
                        key = ('field', f.cls, tuple(path))
                    elif kind == 'local':
                        m = f.nodes[f.strip(pn['ch'][0], 'all')]
                        key = ('local', f.usr, m['decl']['id'], m['decl']['name'])
                    break
                if pn['k'] == 'ReturnStmt':
                    key = ('returned', f.usr)
                    break
                if pn['k'] in CALL_KINDS:
                    key = ('handed', pn.get('callee', {}).get('qname'))
                    break
            news.setdefault(key, []).append((f, n['id'], n['array']))
    # a call of an allocation wrapper stores what the wrapper allocates
    for f in prog.repo_funcs():
        for n in f.calls():
            w = _c18.alloc_wrapper(prog, n['callee']['usr'])
            if not w:
                continue
            key = None
            for p in f.ancestors(n['id']):
                pn = f.nodes[p]
                if pn['k'] == 'DeclStmt':
                    for d in pn['decls']:
                        if d.get('init') is not None and n['id'] in f.descendants(d['init']):
                            key = ('local', f.usr, d['id'], d['name'])
                    break
                if pn['k'] == 'BinaryOperator' and pn['op'] == '=':
                    kind, path = root_of(f, pn['ch'][0])
                    if kind == 'this':
                        key = ('field', f.cls, tuple(path))
                    break
            if key:
                news.setdefault(key, []).append((w[0], w[1]['id'], bool(w[1].get('array'))))
    for f in prog.repo_funcs():
        for n in f.all_nodes({'CXXDeleteExpr'}):
            ndel += 1
            kind, path = root_of(f, n['arg'])
            if kind == 'this':
                key = ('field', f.cls, tuple(path))
            elif kind == 'local':
                m = f.nodes[f.strip(n['arg'], 'all')]
                key = ('local', f.usr, m['decl']['id'], m['decl']['name'])
            else:
                res.undecided('new-delete', 'delete of %s' % kind, f.loc(n['id']), 'cannot resolve what is deleted', function=f.sig, expr='delete')
                continue
            srcs = news.get(key, [])
            name = '.'.join(path) if kind == 'this' else key[3]
            if not srcs:
                res.viol('new-delete', 'delete %s' % name, f.loc(n['id']), 'no new expression is stored to this path', function=f.sig, expr='delete:' + name)
                continue
            forms = {a for _, _, a in srcs}
            if forms == {n['array']}:
                res.ok('new-delete', 'delete%s %s' % ('[]' if n['array'] else '', name), f.loc(n['id']),
                       'matches %d new%s expression(s)' % (len(srcs), '[]' if n['array'] else ''), function=f.sig, expr='delete:' + name)
            else:
                res.viol('new-delete', 'delete%s %s' % ('[]' if n['array'] else '', name), f.loc(n['id']),
                         'allocated with new%s at %s but released with delete%s' % ('[]' if True in forms else '', ', '.join(g.loc(i) for g, i, _ in srcs), '[]' if n['array'] else ''),
                         function=f.sig, expr='delete:' + name)
    # every local new is deleted on all normal paths (or handed over)
    for key, srcs in news.items():
        if key is not None and key[0] == 'returned':
            continue   # an allocation wrapper: judged where its result is stored
        if key is not None and key[0] == 'smart':
            # owned by a smart pointer: released by its destructor; the array form must match the deleter
            g_ = prog.funcs[key[1]]
            arr_t = re.search(r'<[^<>]*\[\]', key[3]) is not None
            for _, nid, arr in srcs:
                if key[3].startswith('std::unique_ptr') or key[3].startswith('const std::unique_ptr'):
                    if bool(arr) != arr_t:
                        res.viol('new-delete', 'smart pointer %s' % key[2], g_.loc(nid), 'allocated with new%s but owned by %s, whose deleter uses delete%s' %
                                 ('[]' if arr else '', key[3], '[]' if arr_t else ''), function=g_.sig, expr='smart:' + key[2])
                    else:
                        res.ok('new-delete', 'smart pointer %s' % key[2], g_.loc(nid), 'released by %s' % key[3], function=g_.sig, expr='smart:%s@%d' % (key[2], nid), nontrivial=False)
                elif arr:
                    res.viol('new-delete', 'smart pointer %s' % key[2], g_.loc(nid), 'array allocation owned by %s, which releases with delete' % key[3], function=g_.sig, expr='smart:' + key[2])
                else:
                    res.ok('new-delete', 'smart pointer %s' % key[2], g_.loc(nid), 'released by %s' % key[3], function=g_.sig, expr='smart:%s@%d' % (key[2], nid), nontrivial=False)
            continue
        if key is None:
            for f, nid, arr in srcs:
                res.undecided('new-delete', 'new expression', f.loc(nid), 'result of new is not stored to a resolvable path', function=f.sig, expr='new')
            continue
        if key[0] == 'local':
            f = prog.funcs[key[1]]
            g = f.events()
            dels = set()
            for n in f.all_nodes({'CXXDeleteExpr'}):
                m = f.nodes[f.strip(n['arg'], 'all')]
                if m['k'] == 'DeclRefExpr' and m['decl'].get('id') == key[2]:
                    v = g.vertex_of.get(n['id'])
                    if v is not None:
                        dels.add(v)
            # the function hands the allocation back (`return p;`): it is an allocation wrapper, judged where its result is stored
            handed_back = set()
            for r_ in f.all_nodes({'ReturnStmt'}):
                if r_.get('ch'):
                    rm = f.nodes[f.strip(r_['ch'][0], 'all')]
                    if rm['k'] == 'DeclRefExpr' and rm['decl'].get('id') == key[2] and g.vertex_of.get(r_['id']) is not None:
                        handed_back.add(g.vertex_of[r_['id']])
            for _, nid, arr in srcs:
                nv = g.vertex_of.get(nid)
                if nv is None:
                    continue
                if handed_back and g.NEXIT not in g.reach([nv], avoid=dels | handed_back):
                    res.ok('new-delete', 'local %s handed back to the caller' % key[3], f.loc(nid), 'every normal path releases the buffer or returns it', function=f.sig, expr='leak:' + key[3])
                    continue
                if g.NEXIT in g.reach([nv], avoid=dels):
                    res.viol('new-delete', 'local %s' % key[3], f.loc(nid), 'allocated buffer is not released on every normal path', function=f.sig, expr='leak:' + key[3])
                else:
                    res.ok('new-delete', 'local %s released on every normal path' % key[3], f.loc(nid), function=f.sig, expr='leak:' + key[3])
    res.minimum('new expressions', nnew, 8)
    res.minimum('delete expressions', ndel, 1)


def buffer_contract_rule(prog, res):
    """functions that write through a char* parameter: the highest index written, as a polynomial in
    their own parameters; every caller's buffer must be at least that + 1 long"""
    ncallers = 0
    for f in prog.repo_funcs():
        ptr_params = [(i, p) for i, p in enumerate(f.params) if p['type'] in ('char *',)]
        if not ptr_params:
            continue
        R = Renderer(f)
        for k, pp in ptr_params:
            need = None   # polynomial over argN atoms: bytes required
            for n in f.nodes:
                if n['k'] == 'ArraySubscriptExpr':
                    b = f.nodes[f.strip(n['ch'][0], 'all')]
                    if b['k'] == 'DeclRefExpr' and b['decl'].get('dk') == 'param' and b['decl'].get('id') == pp['id']:
                        par = f.nodes[n['p']]
                        is_write = par['k'] == 'BinaryOperator' and par['op'] == '=' and f.strip(par['ch'][0], 'all') == n['id']
                        if is_write:
                            idx = P.poly(f, n['ch'][1], R)
                            cand = P.add(idx, P.const(1))
                            if need is None or (P.diff_const(cand, need) or 0) > 0:
                                need = cand
                if n['k'] == 'CXXMemberCallExpr' and n['callee']['name'] == 'read' and n['callee'].get('classq', '').startswith('std::basic_istream'):
                    a0 = f.nodes[f.strip(n['args'][0], 'all')]
                    if a0['k'] == 'DeclRefExpr' and a0['decl'].get('id') == pp['id'] and a0['decl'].get('dk') == 'param':
                        cnt = P.poly(f, n['args'][1], R)
                        if need is None or (P.diff_const(cnt, need) or 0) > 0:
                            need = cnt
            if need is None:
                continue
            # callers
            for g, cn in prog.callers_of(f.usr):
                ncallers += 1
                RG = Renderer(g)
                args = g.call_args(cn)
                # substitute argN atoms of `need` by the caller's argument polynomials
                sub = {}
                for i in range(len(f.params)):
                    if i < len(args):
                        sub['arg%d' % i] = P.poly(g, args[i], RG)
                required = {}
                okp = True
                for mono, c in need.items():
                    term = P.const(c)
                    for a in mono:
                        if a in sub:
                            term = P.mul(term, sub[a])
                        else:
                            okp = False
                    required = P.add(required, term)
                if not okp:
                    res.undecided('buffer-contract', f.sig, g.loc(cn['id']), 'requirement mentions non-parameter state', function=g.sig, expr='contract')
                    continue
                # the buffer argument: local pointer initialised by new char[X], or member allocated in ctors
                ba = g.nodes[g.strip(args[k], 'all')]
                alloc = []
                required = _c18.const_subst(prog, g.cls, required)
                if ba['k'] == 'CXXMemberCallExpr' and ba['callee']['name'] == 'get':
                    an_ = _c18.as_new(g, ba['id'])
                    if an_ and an_['array'] and an_['size'] is not None:
                        alloc.append((g, an_['size']))
                elif ba['k'] == 'DeclRefExpr' and ba['decl'].get('dk') == 'local' and re.match(r'^(?:unsigned |signed )?char\s*\[(\d+)\]$', str(ba.get('t') or ba['decl'].get('type') or '')):
                    # a local array of fixed capacity
                    cap = int(re.match(r'^(?:unsigned |signed )?char\s*\[(\d+)\]$', str(ba.get('t') or ba['decl'].get('type'))).group(1))
                    dcap = P.diff_const(P.const(cap), required)
                    if dcap is not None and dcap >= 0:
                        alloc.append((g, P.const(cap)))
                    elif dcap is not None:
                        res.viol('buffer-contract', '%s(%s)' % (f.name, P.show(required)), g.loc(cn['id']), 'local array of %d bytes, callee writes %s bytes' % (cap, P.show(required)), function=g.sig, expr='contract:' + f.name, sure=True)
                        continue
                    else:
                        import indexsites as _IS2
                        atoms_ = {a_ for mono in required for a_ in mono}
                        tested = [1 for l_, op_, r_, _x in _IS2.facts_at(g, RG, cn['id']) if any(a_ in str(l_) or a_ in str(r_) for a_ in atoms_)]
                        if tested:
                            res.undecided('buffer-contract', f.sig, g.loc(cn['id']), 'local array of %d bytes, %s bytes are written under a guard the rule cannot relate to the capacity [shape not read by the rule]' % (cap, P.show(required)),
                                          function=g.sig, expr='alloc')
                        else:
                            res.viol('buffer-contract', '%s(%s)' % (f.name, P.show(required)), g.loc(cn['id']), 'a local array of %d bytes receives %s bytes and nothing in the function compares that count with the capacity: '
                                     'a larger count (it comes from the caller / the file) writes past the array' % (cap, P.show(required)), function=g.sig, expr='contract:' + f.name, sure=True)
                        continue
                elif ba['k'] == 'DeclRefExpr' and ba['decl'].get('dk') == 'local':
                    init = local_init(g, ba['decl']['id'])
                    if init is not None:
                        an_ = _c18.as_new(g, init)
                        if an_ and an_['array'] and an_['size'] is not None:
                            alloc.append((g, an_['size']))
                elif ba['k'] == 'MemberExpr' and ba.get('mk') == 'field' and re.match(r'^(?:unsigned |signed )?char\[(\d+)\]$', ba.get('ftype', '')):
                    alloc.append((g, P.const(int(re.match(r'^(?:unsigned |signed )?char\[(\d+)\]$', ba['ftype']).group(1)))))
                elif ba['k'] == 'MemberExpr' and ba.get('mk') == 'field':
                    for h, nid, rhs in _c18.field_writes(prog, ba['fclass'], ba['member']):
                        if rhs is None:
                            continue
                        an_ = _c18.as_new(h, rhs)
                        if an_ and an_['array'] and an_['size'] is not None:
                            alloc.append((h, an_['size']))
                        else:
                            alloc.append((h, None))
                elif ba['k'] == 'DeclRefExpr' and ba['decl'].get('dk') == 'param':
                    # forwarded: the caller's own contract is checked when it is analysed as callee
                    res.ok('buffer-contract', '%s forwards its buffer to %s' % (g.name, f.name), g.loc(cn['id']), function=g.sig, expr='forward', nontrivial=False)
                    continue
                if not alloc:
                    res.undecided('buffer-contract', f.sig, g.loc(cn['id']), 'cannot find the allocation of the buffer argument', function=g.sig, expr='alloc')
                    continue
                bad = None
                for h, ap in alloc:
                    if ap is None:
                        bad = 'buffer member is assigned from something that is not new char[n]'
                        break
                    ap = _c18.const_subst(prog, h.cls, ap)
                    d = P.diff_const(ap, required)
                    if d is None or d < 0:
                        bad = 'buffer of %s bytes, callee writes %s bytes' % (P.show(ap), P.show(required))
                        break
                # a member used in both size and count must not be modified in between: only ctor inits may write it
                if bad is None and ba['k'] == 'MemberExpr':
                    for mono in required:
                        for a in mono:
                            m = re.match(r'^this\.(\w+)$', a)
                            if m:
                                ws = [(h, nid) for h, nid, rhs in _c18.field_writes(prog, ba['fclass'], m.group(1)) if h.kind != 'ctor']
                                if ws:
                                    bad = 'size member %s is modified outside the constructors (%s)' % (m.group(1), ws[0][0].loc(ws[0][1]))
                if bad:
                    res.viol('buffer-contract', '%s(%s)' % (f.name, P.show(required)), g.loc(cn['id']), bad, function=g.sig, expr='contract:' + f.name)
                else:
                    res.ok('buffer-contract', '%s needs %s bytes' % (f.name, P.show(required)), g.loc(cn['id']),
                           'buffer allocated with %s' % ', '.join(P.show(ap) for _, ap in alloc), function=g.sig, expr='contract:%s@%d' % (f.name, cn['id']))
    res.minimum('callers of buffer-writing functions', ncallers, 4)


def dangling_rule(prog, res):
    n = 0
    for f in prog.repo_funcs():
        rt = f.rec['ret']
        if not (rt.endswith('&') or rt.endswith('*')):
            continue
        for r in f.all_nodes({'ReturnStmt'}):
            if not r['ch']:
                continue
            n += 1
            kind, path = root_of(f, r['ch'][0])
            rv_ = f.nodes[f.strip(r['ch'][0], 'all')]
            if rt.endswith('*') and (rv_['k'] in ('CXXNullPtrLiteralExpr', 'GNUNullExpr', 'StringLiteral') or str(rv_.get('cv')) == '0'):
                res.ok('dangling', f.sig.split('::')[-1], f.loc(r['id']), 'returns a null pointer / a string literal (static storage)', function=f.sig, expr='return@%d' % r['id'], nontrivial=False)
                continue
            if rt.endswith('*') and _c18.as_new(f, r['ch'][0]) is not None:
                res.ok('dangling', f.sig.split('::')[-1], f.loc(r['id']), 'returns a fresh heap allocation (ownership passes to the caller)', function=f.sig, expr='return@%d' % r['id'], nontrivial=False)
                continue
            if kind in ('local', 'temp', 'param-value', 'literal') and not (kind == 'literal'):
                res.viol('dangling', f.sig, f.loc(r['id']), 'returns a reference/pointer to a %s (%s)' % (kind, '.'.join(path)), function=f.sig, expr='return')
            elif kind == 'unknown':
                res.undecided('dangling', f.sig, f.loc(r['id']), 'cannot resolve what the returned reference designates', function=f.sig, expr='return')
            else:
                res.ok('dangling', f.sig.split('::')[-1], f.loc(r['id']), 'returns %s.%s' % (kind, '.'.join(path)), function=f.sig, expr='return@%d' % r['id'], nontrivial=False)
    res.minimum('reference-returning return statements', n, 30)


def stale_reference_rule(prog, res):
    """(a) a local reference bound to an element of a member container must not be used after a call
    that may grow/shrink that container (reallocation frees the element);
    (b) a pointer obtained from c_str()/data() of a temporary must not outlive the declaration."""
    E = FX.get(prog)
    nrefs = 0
    for f in prog.repo_funcs():
        g = None
        R = None
        for n in f.all_nodes({'DeclStmt'}):
            for d in n['decls']:
                if d['dk'] != 'local' or 'init' not in d:
                    continue
                # (b) pointer into a temporary
                if d.get('tc') == 'p':
                    i = f.nodes[f.strip(d['init'], 'all')]
                    if i['k'] == 'CXXMemberCallExpr' and i['callee']['name'] in ('c_str', 'data') and i.get('obj') is not None:
                        o = f.nodes[f.strip(i['obj'], 'noop')]
                        while o['k'] in ('MaterializeTemporaryExpr', 'CXXBindTemporaryExpr', 'ExprWithCleanups', 'ImplicitCastExpr') and o['ch']:
                            o = f.nodes[f.strip(o['ch'][0], 'noop')]
                        is_temp = o['k'] in ('CallExpr', 'CXXMemberCallExpr', 'CXXOperatorCallExpr', 'CXXConstructExpr', 'CXXTemporaryObjectExpr', 'CXXFunctionalCastExpr') and \
                            not (o.get('callee', {}).get('ret', '').endswith('&'))
                        uses = [x for x in f.all_nodes({'DeclRefExpr'}) if x['decl'].get('id') == d['id'] and x['decl'].get('dk') == 'local']
                        if is_temp and uses:
                            res.viol('dangling', 'pointer `%s` into a temporary' % d['name'], f.loc(n['id']),
                                     '%s() of a temporary object is kept in a local pointer: the temporary is destroyed at the end of the declaration and the pointer is used afterwards (%s)' %
                                     (i['callee']['name'], f.loc(uses[0]['id'])), function=f.sig, expr='temp-ptr:' + d['name'])
                    continue
                # (b') an iterator into a temporary:  auto it = get().begin();  - the container returned by value dies with the declaration
                i2 = f.nodes[f.strip(d['init'], 'all')]
                if i2['k'] == 'CXXMemberCallExpr' and i2['callee']['name'] in ('begin', 'end', 'cbegin', 'cend', 'rbegin', 'rend') and i2.get('obj') is not None and \
                        str(i2['callee'].get('classq', '')).startswith('std::'):
                    o = f.nodes[f.strip(i2['obj'], 'noop')]
                    while o['k'] in ('MaterializeTemporaryExpr', 'CXXBindTemporaryExpr', 'ExprWithCleanups', 'ImplicitCastExpr') and o['ch']:
                        o = f.nodes[f.strip(o['ch'][0], 'noop')]
                    rt_ = str(o.get('callee', {}).get('ret', ''))
                    is_temp = o['k'] in ('CallExpr', 'CXXMemberCallExpr') and o.get('callee', {}).get('inrepo') and rt_ and not rt_.endswith('&') and not rt_.endswith('*')
                    uses = [x for x in f.all_nodes({'DeclRefExpr'}) if x['decl'].get('id') == d['id'] and x['decl'].get('dk') == 'local']
                    if is_temp and uses:
                        res.viol('dangling', 'iterator `%s` into a temporary' % d['name'], f.loc(n['id']),
                                 '%s() of the container that %s() returns by value is kept in a local: the temporary container is destroyed at the end of the declaration and the iterator is used afterwards (%s)' %
                                 (i2['callee']['name'], o['callee'].get('name'), f.loc(uses[0]['id'])), function=f.sig, expr='temp-iter:' + d['name'], sure=True)
                        continue
                if not d.get('isref') or d['type'].startswith('const ') and False:
                    continue
                kind, path = root_of(f, d['init'])
                if kind not in ('this', 'param') or '[]' not in path:
                    continue
                nrefs += 1
                g = g or f.events()
                R = R or Renderer(f)
                dv = g.vertex_of.get(n['id'])
                # containers on the way to the element: every prefix ending right before a '[]'
                conts = [tuple(path[:k]) for k, c in enumerate(path) if c == '[]']
                root = 'this' if kind == 'this' else 'param:' + path[0][1:]
                if kind == 'param':
                    conts = [c[1:] for c in conts]
                uses = [x for x in f.all_nodes({'DeclRefExpr'}) if x['decl'].get('id') == d['id'] and x['decl'].get('dk') == 'local']
                bad = None
                for e in E.events_of(f, root):
                    nid, _, epath, ekind = e
                    if ekind not in ('append', 'resize', 'insert', 'erase') and not (ekind == 'assign' and tuple(epath) in conts):
                        continue
                    if tuple(epath) not in conts:
                        continue
                    ev = g.vertex_of.get(nid)
                    if ev is None or dv is None or ev not in g.reach([dv]):
                        continue
                    # the reference is re-bound each time its declaration is passed (loop bodies): only
                    # uses reached from the growth without passing the declaration again see the old binding
                    after = g.reach([ev], avoid={dv})
                    later = [u for u in uses if g.vertex_of.get(u['id']) in after and u['id'] not in f.descendants(nid)]
                    if later:
                        bad = (e, later[0])
                        break
                if bad:
                    e, u = bad
                    res.viol('dangling', 'reference `%s` to an element of %s' % (d['name'], '.'.join(e[2])), f.loc(u['id']),
                             'the reference is bound to an element of a container at %s, the container may be reallocated by %s at %s, and the reference is used afterwards' %
                             (f.loc(n['id']), FX.fmt(e), f.loc(e[0])), function=f.sig, expr='stale-ref:' + d['name'])
                else:
                    res.ok('dangling', 'reference `%s` to a container element' % d['name'], f.loc(n['id']), 'no resizing of %s between the binding and the uses' % '.'.join(path[:path.index('[]')]),
                           function=f.sig, expr='stale-ref:%s@%d' % (d['name'], n['id']))
    res.minimum('local references to container elements', nrefs, 2)
    # (c) a reference parameter of the element type of a member container may designate an element
    # of that container (obj.frame(obj.frame(0))): it must not be read after the container may reallocate
    npar = 0
    for f in prog.repo_funcs():
        if f.kind != 'method' or f.implicit or not f.cls or f.cls not in prog.classes:
            continue
        vec = {}
        for fl in prog.classes[f.cls]['fields']:
            m = re.match(r'^std::vector<(.*)>$', fl['type'])
            if m:
                vec[m.group(1)] = fl['name']
        # containers of the same element type anywhere below this object (reached through owned sections)
        deep = {}
        for cq_, c_ in prog.classes.items():
            for fl in c_['fields']:
                m = re.match(r'^std::vector<(.*)>$', fl['type'])
                if m:
                    deep.setdefault(m.group(1), set()).add(fl['name'])
        for pi, prm in enumerate(f.params):
            m = re.match(r'^const (.*) &$', prm['type'])
            if not m:
                continue
            if m.group(1) not in vec:
                # the container lives in a section this object owns: the growth happens inside a callee
                names = deep.get(m.group(1), set())
                # one specific container (no element selection on the way to it): elements of containers nested in other
                # containers keep their address when the outer one grows (relocation-stable classes, judged elsewhere)
                growd = [e for e in E.events_of(f, 'this') if len(e[2]) >= 2 and e[2][-1] in names and '[]' not in e[2] and e[3] in ('resize', 'insert', 'assign', 'erase', 'clear', 'append')]
                if not growd:
                    continue
                g = f.events()
                uses = [x for x in f.all_nodes({'DeclRefExpr'}) if x['decl'].get('dk') == 'param' and x['decl'].get('id') == prm['id']]
                badd = None
                for e in growd:
                    ev = g.vertex_of.get(e[0])
                    if ev is None:
                        continue
                    after = g.reach([ev])
                    late = [u for u in uses if g.vertex_of.get(u['id']) in after and u['id'] not in f.descendants(e[0])]
                    if late:
                        badd = (e, late[0])
                        break
                npar += 1
                inst = '%s::%s: argument `%s` may be an element of %s' % (f.cls.split('::')[-1], f.name, prm['name'], '.'.join(growd[0][2]))
                if badd:
                    e, u = badd
                    res.viol('dangling', inst, f.loc(u['id']), 'the container may be reallocated by %s at %s and the argument is read afterwards: when the caller passes an element of that '
                             'container (x.%s(x.data().%s(0))) the reference dangles' % (FX.fmt(e), f.loc(e[0]), f.name, f.name), function=f.sig, expr='param-alias:' + prm['name'])
                else:
                    res.ok('dangling', inst, f.loc(), 'the argument is not read after the call that may reallocate %s' % '.'.join(growd[0][2]), function=f.sig, expr='param-alias:' + prm['name'])
                continue
            cont = vec[m.group(1)]
            npar += 1
            g = f.events()
            grow = [e for e in E.events_of(f, 'this') if tuple(e[2]) == (cont,) and e[3] in ('resize', 'insert', 'assign', 'erase', 'clear')]
            uses = [x for x in f.all_nodes({'DeclRefExpr'}) if x['decl'].get('dk') == 'param' and x['decl'].get('id') == prm['id']]
            bad = None
            for e in grow:
                ev = g.vertex_of.get(e[0])
                if ev is None:
                    continue
                after = g.reach([ev])
                late = [u for u in uses if g.vertex_of.get(u['id']) in after and u['id'] not in f.descendants(e[0])]
                if late:
                    bad = (e, late[0])
                    break
            inst = '%s::%s: argument `%s` may be an element of %s' % (f.cls.split('::')[-1], f.name, prm['name'], cont)
            if bad:
                e, u = bad
                res.viol('dangling', inst, f.loc(u['id']), 'the container may be reallocated by %s at %s and the argument is read afterwards: when the caller passes an element of the '
                         'same container (x.%s(x.%s(0), n)) the reference dangles' % (FX.fmt(e), f.loc(e[0]), f.name, f.name), function=f.sig, expr='param-alias:' + prm['name'])
            else:
                res.ok('dangling', inst, f.loc(), 'the argument is not read after a reallocation of %s (push_back of the argument itself is alias-safe)' % cont,
                       function=f.sig, expr='param-alias:' + prm['name'])
    res.minimum('methods storing an argument of the element type of their own container', npar, 4)
    # (d) an argument of the type of a member may BE that member when a public getter hands the member out by reference
    # (p.set(values, p.dimension())): the member must not be emptied / rebuilt before the argument has been read
    for cq, c in sorted(prog.classes.items()):
        if not cq.startswith('ezc3d::'):
            continue
        ref_getters = {}
        for g_ in prog.repo_funcs():
            if g_.cls == cq and g_.kind == 'method' and g_.rec.get('const') and not g_.params and g_.rec.get('access', 'public') == 'public' and str(g_.rec.get('ret', '')).endswith('&') and g_.body is not None:
                Rg = Renderer(g_)
                rets = {Rg.render(r_['ch'][0]) for r_ in g_.all_nodes({'ReturnStmt'}) if r_.get('ch')}
                if len(rets) == 1 and re.match(r'^this\.\w+$', list(rets)[0]):
                    ref_getters[list(rets)[0][5:]] = g_
        for fl in c['fields']:
            if fl['name'] not in ref_getters or not fl['type'].startswith('std::vector<'):
                continue
            for f in prog.repo_funcs():
                if f.cls != cq or f.kind != 'method' or f.implicit or f.body is None:
                    continue
                for prm in f.params:
                    if prm['type'] != 'const %s &' % fl['type']:
                        continue
                    public = f.rec.get('access', 'public') == 'public' or any(h.cls == cq and h.rec.get('access', 'public') == 'public' and
                                                                              any(Renderer(h).render(a_).startswith('arg') for a_ in h.call_args(cn)) for h, cn in prog.callers_of(f.usr))
                    if not public:
                        continue
                    g = f.events()
                    wipes = [e for e in E.events_of(f, 'this') if tuple(e[2]) == (fl['name'],) and e[3] in ('clear', 'assign', 'resize', 'erase') and
                             not (f.nodes[e[0]]['k'] in ('CXXOperatorCallExpr', 'BinaryOperator'))]      # `member = argument` is self-assignment safe
                    uses = [x for x in f.all_nodes({'DeclRefExpr'}) if x['decl'].get('dk') == 'param' and x['decl'].get('id') == prm['id']]
                    hit = None
                    for e in wipes:
                        ev = g.vertex_of.get(e[0])
                        if ev is None:
                            continue
                        late = [u for u in uses if g.vertex_of.get(u['id']) in g.reach([ev]) and u['id'] not in f.descendants(e[0])]
                        if late:
                            hit = (e, late[0])
                            break
                    inst = '%s::%s: argument `%s` may be the member %s itself' % (cq.split('::')[-1], f.name, prm['name'], fl['name'])
                    if hit:
                        res.viol('dangling', inst, f.loc(hit[1]['id']), '%s() hands out a reference to %s; this function empties / rebuilds %s (%s at %s) and reads the argument afterwards: called with the object\'s own '
                                 '%s() the argument is already gone' % (ref_getters[fl['name']].name, fl['name'], fl['name'], FX.fmt(hit[0]), f.loc(hit[0][0]), ref_getters[fl['name']].name),
                                 function=f.sig, expr='member-alias:' + prm['name'], sure=True)
                    else:
                        res.ok('dangling', inst, f.loc(), 'the member is not emptied before the argument has been read', function=f.sig, expr='member-alias:' + prm['name'])


def copy_bound_rule(prog, res, scope=None, rule='copy-bound'):
    """std::copy / std::copy_n / std::transform / std::fill_n into `Y.begin()` (or a pointer into Y) writes
    as many elements as the source range has: Y must be known to hold at least that many.  Proof: Y was
    sized with the source's size (same rendering), or a dominating guard bounds the source's size by
    Y's; a destination sized by one quantity and filled from a range of another is a violation; anything
    else is UNDECIDED.  back_inserter / inserter destinations grow and are fine."""
    import codec as _codec
    import indexsites as _IS
    n_ = 0
    for f in prog.repo_funcs():
        if scope is not None and f.usr not in scope:
            continue
        R = None
        for c in f.calls():
            q = c['callee'].get('qname')
            if c['k'] != 'CallExpr' or q not in ('std::copy', 'std::copy_n', 'std::transform', 'std::move', 'std::copy_backward'):
                continue
            args = f.call_args(c)
            if (q in ('std::copy', 'std::copy_backward') and len(args) != 3) or (q == 'std::move' and len(args) != 3) or (q == 'std::copy_n' and len(args) != 3) or (q == 'std::transform' and len(args) not in (4, 5)):
                continue
            R = R or Renderer(f)
            dst = f.nodes[f.strip(args[2 if q != 'std::transform' else (2 if len(args) == 4 else 3)], 'all')]
            if dst['k'] == 'CallExpr' and dst.get('callee', {}).get('qname') in ('std::back_inserter', 'std::inserter', 'std::front_inserter'):
                continue
            if not (dst['k'] == 'CXXMemberCallExpr' and dst['callee']['name'] == 'begin' and dst.get('obj') is not None):
                continue      # raw pointers and offsets: judged by the buffer rules
            n_ += 1
            Y = R.render(dst['obj'])
            b = f.nodes[f.strip(args[0], 'all')]
            if q == 'std::copy_n':
                src_n = R.render(args[1])
                src_desc = src_n
            else:
                e = f.nodes[f.strip(args[1], 'all')]
                if not (b['k'] == 'CXXMemberCallExpr' and b['callee']['name'] in ('begin', 'cbegin') and e['k'] == 'CXXMemberCallExpr' and e['callee']['name'] in ('end', 'cend') and
                        b.get('obj') is not None and e.get('obj') is not None and R.render(b['obj']) == R.render(e['obj'])):
                    res.undecided(rule, '%s into %s' % (q, Y), f.loc(c['id']), 'the source range is not [X.begin(), X.end()) [shape not read by the rule]', function=f.sig, expr='copy:' + Y)
                    continue
                X = R.render(b['obj'])
                if X == Y:
                    res.ok(rule, '%s within %s' % (q, Y), f.loc(c['id']), 'source and destination are the same container', function=f.sig, expr='copy:%s@%d' % (Y, c['id']), nontrivial=False)
                    continue
                src_n = X + '.size'
                src_desc = 'all of ' + X
            # how large is Y?
            ysz = None
            yo = f.nodes[f.strip(dst['obj'], 'all')]
            if yo['k'] == 'DeclRefExpr' and yo['decl'].get('dk') == 'local':
                sp = _codec.sized_buffer(f, dst['obj'], R)
                if sp is not None:
                    ysz = P.show(sp)
            facts = _IS.facts_at(f, R, c['id'])
            proven = (ysz is not None and ysz == src_n) or any((l == src_n and op in ('<=', '<', '==') and r in (ysz, Y + '.size')) or
                                                               (l in (ysz, Y + '.size') and op in ('>=', '>', '==') and r == src_n) for l, op, r, _ in facts)
            inst = '%s into %s' % (q, Y)
            if proven:
                res.ok(rule, inst, f.loc(c['id']), 'destination holds at least %s elements' % src_n, function=f.sig, expr='copy:%s@%d' % (Y, c['id']))
            elif ysz is not None:
                res.viol(rule, inst, f.loc(c['id']), '%s (%s elements) is copied into %s, which was sized with %s elements, and nothing compares the two: a longer source writes past the end of %s' %
                         (src_desc, src_n, Y, ysz, Y), function=f.sig, expr='copy:' + Y)
            else:
                res.undecided(rule, inst, f.loc(c['id']), 'cannot relate the size of %s to %s [no proof found]' % (Y, src_n), function=f.sig, expr='copy:' + Y)
    res.ok(rule, 'range copies into sized containers screened', 'src/', '%d copy site(s)' % n_, function='', expr='screen', nontrivial=False)


def raw_owner_rule(prog, res):
    al = _c08.aliasing_classes(prog)
    for q, c in sorted(prog.classes.items()):
        raws = [fl for fl in c['fields'] if fl['own'] == 'rawptr']
        for fl in raws:
            # owning = some delete of this field exists
            owning = False
            for f in prog.repo_funcs():
                for n in f.all_nodes({'CXXDeleteExpr'}):
                    m = f.nodes[f.strip(n['arg'], 'all')]
                    if m['k'] == 'MemberExpr' and m['member'] == fl['name'] and m.get('fclass') == q:
                        owning = True
            if not owning:
                continue
            a = al.get(q, {})
            if a.get('copyable') and (a.get('ctor') or a.get('assign')):
                res.viol('raw-owner', '%s::%s' % (q, fl['name']), '%s:%d' % (c['file'].replace(prog.repo + '/', ''), fl['line']),
                         'class owns a raw buffer and is copyable with implicit copy: double free', function='', expr=fl['name'])
            else:
                res.ok('raw-owner', '%s::%s' % (q, fl['name']), '%s:%d' % (c['file'].replace(prog.repo + '/', ''), fl['line']),
                       'owning raw pointer in a non-copyable class', function='', expr=fl['name'])


def has_move_ctor(c):
    sp = c['special']
    if sp['user_move_ctor']:
        return True
    return not (sp['user_copy_ctor'] or sp['user_copy_assign'] or sp['user_move_assign'] or sp['user_dtor'])


def reloc_stable_rule(prog, res):
    """T stored by value in a member std::vector<T> that some function grows while it also holds a
    reference parameter that may designate (part of) an element: T (and every class on the way
    down to the referenced type) must have a move constructor, otherwise reallocation copies and
    frees the buffers that the caller's reference points into.  Classes whose own members are only
    scalars/strings (no nested vectors of classes) are exempt: nothing can point below them that
    survives a copy anyway."""
    n = 0
    owners = {}   # element class -> container field
    for q, c in prog.classes.items():
        for fl in c['fields']:
            m = re.match(r'^std::vector<(ezc3d::[\w:]+)>$', fl['type'])
            if m and m.group(1) in prog.classes:
                owners.setdefault(m.group(1), []).append('%s::%s' % (q, fl['name']))
    for el, conts in sorted(owners.items()):
        c = prog.classes[el]
        nested = [fl for fl in c['fields'] if re.match(r'^std::vector<(ezc3d::[\w:]+)>$', fl['type'])]
        if not nested:
            continue
        n += 1
        where = '%s:%d' % (c['file'].replace(prog.repo + '/', ''), c['line'])
        if has_move_ctor(c):
            res.ok('reloc-stable', el, where, 'stored in %s and owns %s: keeps its move constructor, reallocation of the outer vector leaves inner buffers in place' % (conts, [x['name'] for x in nested]),
                   function='', expr=el)
        else:
            res.viol('reloc-stable', el, where,
                     'stored by value in %s and owns nested element buffers (%s) but has no move constructor (a user-declared destructor/copy operation suppresses it): '
                     'when the outer vector reallocates, elements are copied and the old inner buffers freed while callers may still hold references into them '
                     '(e.g. c3d::parameter(newGroup, p) with p referring to a parameter of the same object)' % (conts, [x['name'] for x in nested]),
                     function='', expr=el)
    res.minimum('nested element classes', n, 2)


def string_width_rule(prog, res):
    """write(s.c_str(), n) anywhere in the library (shared classification with C14)"""
    tu_ok, _ = _c14.length_preserving_toupper(prog)
    nw = 0
    for f in prog.repo_funcs():
        R = Renderer(f)
        for n in f.calls():
            c = n['callee']
            if c['name'] in _c14.WRITERS and c.get('classq', '').startswith(('std::basic_ostream', 'std::basic_streambuf', 'std::basic_filebuf', 'std::basic_fstream')):
                nw += 1
                verdict, kind, detail = _c14.classify_write(prog, f, n, R, tu_ok)
                key = '%s:%s' % (kind, R.render(f.call_args(n)[0]) if f.call_args(n) else '?')
                if verdict == 'ok':
                    res.ok('string-width', key, f.loc(n['id']), detail, function=f.sig, expr='%s@%d' % (key, n['id']), nontrivial=(kind != 'object'))
                elif verdict == 'violation':
                    res.viol('string-width', key, f.loc(n['id']), 'reads outside the source object: ' + detail, function=f.sig, expr=key)
                else:
                    res.undecided('string-width', key, f.loc(n['id']), detail, function=f.sig, expr=key)
    res.minimum('write calls', nw, 25)


def cstring_cut_rule(prog, res, rule='string-width'):
    """c3d::readString hands back a std::string built from a C string: it ends at the first NUL byte of what was read.  Taking
    `s.c_str() + offset` / `s.data() + offset` of such a string and reading a count of bytes from there trusts the requested
    length, not the length the string really has"""
    from paths import local_init
    n = 0
    for f in prog.repo_funcs():
        R = None
        for m in f.nodes:
            if m['k'] != 'BinaryOperator' or m.get('op') != '+':
                continue
            l = f.nodes[f.strip(m['ch'][0], 'all')]
            if l['k'] != 'CXXMemberCallExpr' or l['callee']['name'] not in ('c_str', 'data') or l['callee'].get('classq') != 'std::basic_string' or l.get('obj') is None:
                continue
            o = f.nodes[f.strip(l['obj'], 'all')]
            if o['k'] != 'DeclRefExpr' or o['decl'].get('dk') != 'local':
                continue
            ini = local_init(f, o['decl']['id'])
            if ini is None or not any(f.nodes[x]['k'] == 'CXXMemberCallExpr' and f.nodes[x]['callee']['name'] == 'readString' for x in [ini] + list(f.descendants(ini))):
                continue
            n += 1
            R = R or Renderer(f)
            import indexsites as _IS
            size = 'local:%s.size' % o['decl']['name']
            if any(size in (a_, b_) for a_, op_, b_, _x in _IS.facts_at(f, R, m['id'])):
                res.ok(rule, 'offset into the string read by readString', f.loc(m['id']), 'the offset is taken under a test of the size of the string', function=f.sig, expr='cstr+off@%d' % m['id'])
            else:
                res.viol(rule, 'offset into the string read by readString', f.loc(m['id']), '`%s` addresses bytes of a string returned by readString(), which ends at the first NUL byte it read: when the block holds a zero '
                         'byte the string is shorter than the offset / count used here, and nothing compares them with its size' % R.render(m['id'])[:80], function=f.sig, expr='cstr+off', sure=True)
    res.info['offsets_into_read_strings'] = n


def run(prog, tier):
    res = Result('C13', tier,
                 'Necessary structural conditions of memory safety, each decided over all functions: new/delete form pairing and '
                 'release of local buffers on every normal path; the readFile buffer contract at every caller (polynomial comparison '
                 'of allocation size and bytes written); classification of every write(ptr,n) source; reference-returning functions '
                 'never designate locals/temporaries; owning raw pointers only in non-copyable classes; classes nested in growing '
                 'member vectors keep a move constructor; every subscript/front/back/pop_back/raw dereference site is guarded by a '
                 'verified idiom, justified by a verified invariant or a listed finding.',
                 assumptions=['allocation failure is outside the property',
                              'std::vector reallocation moves elements whose move constructor is noexcept (implicit move of the library classes is)'],
                 not_decided=['heap safety of whole histories as a run-time fact (what an instrumented run observes)',
                              'leaks on exceptional paths (reported as information only)'])
    new_delete_rule(prog, res)
    buffer_contract_rule(prog, res)
    string_width_rule(prog, res)
    dangling_rule(prog, res)
    stale_reference_rule(prog, res)
    cstring_cut_rule(prog, res)
    copy_bound_rule(prog, res)
    raw_owner_rule(prog, res)
    reloc_stable_rule(prog, res)
    import indexsites
    n = indexsites.rule(prog, res, scope=None)
    res.minimum('index sites', n, 70)
    # the "value count equals product of dimensions" invariant rests on the consistency predicate
    # computing its products in full-width arithmetic
    import p_c09
    p_c09.consistency_width_rule(prog, res)
    return res
