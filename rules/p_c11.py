"""C11 — look-ups return the right element or throw the documented error.

Inventory (by signature shape, frozen minimum sizes) + discipline rules:
  positional accessors  : return container.at(idx) with idx the unmodified parameter, every handler of
                          the enclosing try ends in throw std::out_of_range; or `[]` dominated by an
                          explicit idx >= size guard that throws std::out_of_range
  index-by-name         : normal-form loop over [0,size) of the accessor's own container, the only
                          return inside returns the loop variable under an exact-equality test of the
                          element's name with the parameter; fall-through throws std::invalid_argument
  by-name accessors     : return positional(indexByName(name)) on the same container
  typed getters         : throw std::invalid_argument iff the stored type differs from their own
  names stored trimmed  : every store to Point::_name / Channel::_name went through the trimmer
"""
import re
from facts import AnalysisBroken
from result import Result
from paths import Renderer, root_of
from loops import normal_for
import p_c18 as _c18

SIZE_T = 'unsigned long'
STR_TYPES = ('const std::basic_string<char> &', 'std::basic_string<char>', 'const std::basic_string<char>')
OOR = 'std::out_of_range'
INVARG = 'std::invalid_argument'
NAMED_CLASSES = ['ezc3d::DataNS::Points3dNS::Point', 'ezc3d::DataNS::AnalogsNS::Channel']
TYPED = {  # typed getter -> (DATA_TYPE constant value, field) ; spec: include/Parameter.h doc + property text
    'valuesAsByte': (1, '_param_data_int'),
    'valuesAsInt': (2, '_param_data_int'),
    'valuesAsFloat': (4, '_param_data_float'),
    'valuesAsString': (-1, '_param_data_string'),
}
DATA_TYPE_VALUES = [-1, 1, 2, 4, 10000]


def vec_elem(t):
    m = re.match(r'^(?:const )?std::vector<(.*)>$', t.strip())
    return m.group(1) if m else None


def strip_cref(t):
    t = t.strip()
    if t.endswith('&'):
        t = t[:-1].strip()
    if t.startswith('const '):
        t = t[6:]
    return t


def param_unmodified(f, pid):
    for n in f.nodes:
        k = n['k']
        tgt = None
        if (k == 'BinaryOperator' and n['op'] == '=') or k == 'CompoundAssignOperator':
            tgt = n['ch'][0]
        elif k == 'UnaryOperator' and n['op'] in ('++', '--', '&'):
            tgt = n['ch'][0]
        if tgt is not None:
            m = f.nodes[f.strip(tgt, 'all')]
            if m['k'] == 'DeclRefExpr' and m['decl'].get('dk') == 'param' and m['decl'].get('id') == pid:
                return False
    return True


def is_param(f, i, pid, casts='noop'):
    m = f.nodes[f.strip(i, casts)]
    return m['k'] == 'DeclRefExpr' and m['decl'].get('dk') == 'param' and m['decl'].get('id') == pid


def this_field(f, i):
    """name of the field of *this designated by expression i (no element access), else None"""
    m = f.nodes[f.strip(i, 'all')]
    if m['k'] == 'MemberExpr' and m.get('mk') == 'field' and f.nodes[f.strip(m['ch'][0], 'all')]['k'] == 'CXXThisExpr':
        return m['member']
    return None


def handlers_translate(f, call_id, res, rule, inst):
    """the at() call sits in try blocks: every handler that can catch out_of_range must end in
    throw std::out_of_range.  Returns (ok, detail)"""
    for t in f.all_nodes({'CXXTryStmt'}):
        if call_id not in f.descendants(t['body']):
            continue
        for h in t['handlers']:
            hn = f.nodes[h]
            ct = hn.get('catch_t')
            if not (hn.get('catch_all') or ct in (OOR, 'std::logic_error', 'std::exception')):
                continue
            body = f.descendants(hn['body'])
            throws = [f.nodes[x] for x in body if f.nodes[x]['k'] == 'CXXThrowExpr']
            rets = [x for x in body if f.nodes[x]['k'] == 'ReturnStmt']
            if rets:
                return False, 'handler at %s returns instead of throwing' % f.loc(h)
            if not throws:
                return False, 'handler at %s swallows the out_of_range' % f.loc(h)
            # the handler must not fall off its end: its last statement is a throw
            hb = f.nodes[hn['body']]
            last = hb['ch'][-1] if hb['ch'] else None
            lastn = f.nodes[f.strip(last, 'all')] if last is not None else None
            if lastn is None or lastn['k'] != 'CXXThrowExpr':
                return False, 'handler at %s can fall through without throwing' % f.loc(h)
            for th in throws:
                if th.get('rethrow'):
                    continue
                if th.get('throw_t') != OOR:
                    return False, 'handler at %s throws %s instead of std::out_of_range' % (f.loc(h), th.get('throw_t'))
            return True, 'translated by handler at %s' % f.loc(h)
    return True, 'at() throws std::out_of_range itself'


def check_positional(prog, res, cls, m, f, container_fields):
    inst = f.sig
    pid = f.params[0]['id']
    rets = [n for n in f.all_nodes({'ReturnStmt'})]
    if not rets:
        res.viol('positional', inst, f.loc(), 'no return', function=f.sig, expr='noreturn')
        return None
    if not param_unmodified(f, pid):
        res.viol('positional', inst, f.loc(), 'index parameter is modified before use', function=f.sig, expr='param-modified')
        return None
    used = None
    for r in rets:
        if not r['ch']:
            continue
        e = f.nodes[f.strip(r['ch'][0], 'all')]
        ok = False
        detail = ''
        if e['k'] == 'CXXMemberCallExpr' and e['callee']['name'] == 'at' and e['callee'].get('classq') in ('std::vector',):
            fld = this_field(f, e['obj'])
            args = f.call_args(e)
            if fld in container_fields and len(args) == 1 and is_param(f, args[0], pid):
                okh, detail = handlers_translate(f, e['id'], res, 'positional', inst)
                if okh:
                    ok = True
                    used = fld
            else:
                detail = 'at() is not applied to a member container with the bare index parameter'
        elif (e['k'] == 'CXXOperatorCallExpr' and e.get('op') == '[]') or e['k'] == 'ArraySubscriptExpr':
            # unchecked subscript: acceptable only under a dominating  idx >= size -> throw out_of_range
            obj = e['args'][0] if e['k'] == 'CXXOperatorCallExpr' else e['ch'][0]
            idx = e['args'][1] if e['k'] == 'CXXOperatorCallExpr' else e['ch'][1]
            fld = this_field(f, obj)
            if fld in container_fields and is_param(f, idx, pid) and guarded_by_range_check(f, e['id'], pid, fld):
                ok = True
                used = fld
                detail = 'operator[] dominated by an explicit range check that throws std::out_of_range'
            else:
                detail = 'unchecked operator[] on the index parameter (no dominating idx >= size test throwing std::out_of_range on the full-width index)'
        else:
            # delegated to a helper (a template shared by the const / non-const pair, ...): the returned
            # reference must designate an element of a member container, and on finite models the call
            # throws std::out_of_range exactly when idx >= size
            detail = 'returned expression is not container.at(idx)'
            kind_, path_ = root_of(f, r['ch'][0])
            if kind_ == 'this' and len(path_) == 2 and path_[1] == '[]' and path_[0] in container_fields:
                verdict_, why_ = model_positional(f, path_[0])
                if verdict_ == 'ok':
                    ok = True
                    used = path_[0]
                    detail = 'designates an element of %s; walked on finite models: std::out_of_range exactly when idx >= size (%s rows)' % (path_[0], why_)
                elif verdict_ == 'undecided':
                    res.undecided('positional', inst, f.loc(r['id']), 'the accessor delegates to code the rule cannot walk (%s)' % why_, function=f.sig, expr='return')
                    used = path_[0]
                    continue
                else:
                    detail = why_
            elif kind_ == 'unknown':
                res.undecided('positional', inst, f.loc(r['id']), 'cannot resolve what the returned reference designates', function=f.sig, expr='return')
                continue
        if ok:
            res.ok('positional', inst, f.loc(r['id']), detail, function=f.sig, expr='return@%s' % (used,))
        else:
            res.viol('positional', inst, f.loc(r['id']), detail, function=f.sig, expr='return')
    return used


def model_positional(f, cont):
    import a7
    rows = 0
    for n_ in (0, 1, 2):
        for idx in (0, 1, 2, 3, 1 << 32, (1 << 64) - 1):
            model = {'this.%s.size' % cont: n_, 'arg0': idx}
            try:
                _, end, und = a7.walk(f, model, follow_loops=True, max_steps=500)
            except a7.OutOfRange as e:
                return 'mismatch', 'with %d element(s) and index %d the accessor reads element %s unchecked' % (n_, idx, e)
            if end.startswith('undecided') or end == 'loop':
                return 'undecided', end
            want = 'NEXIT' if idx < n_ else 'throw:' + OOR
            got = end.split('@')[0]
            rows += 1
            if got != want:
                return 'mismatch', 'with %d element(s) and index %d the accessor ends in %s; specified %s' % (n_, idx, got, 'a reference to the element' if idx < n_ else 'std::out_of_range')
    return 'ok', rows


def guarded_by_range_check(f, use_id, pid, fld):
    """a dominating `if (idx >= this.fld.size()) throw std::out_of_range` on the bare parameter"""
    g = f.events()
    R = Renderer(f)
    pidx = [p['id'] for p in f.params].index(pid)
    want_a = 'arg%d' % pidx
    uv = g.vertex_of.get(use_id)
    if uv is None:
        return False
    for n in f.all_nodes({'IfStmt'}):
        c = f.nodes[f.strip(n['cond'], 'all')]
        if c['k'] != 'BinaryOperator' or c['op'] not in ('>=', '<=', '<', '>'):
            continue
        l, r = R.render(c['ch'][0]), R.render(c['ch'][1])
        size = 'this.%s.size' % fld
        throw_branch = None
        if (c['op'] == '>=' and l == want_a and r == size) or (c['op'] == '<=' and l == size and r == want_a):
            throw_branch = n['then']
        elif ((c['op'] == '<' and l == want_a and r == size) or (c['op'] == '>' and l == size and r == want_a)) and 'else' in n:
            throw_branch = n['else']
        if throw_branch is None:
            continue
        tb = f.descendants(throw_branch)
        ths = [f.nodes[x] for x in tb if f.nodes[x]['k'] == 'CXXThrowExpr']
        if not ths or any(t.get('throw_t') != OOR for t in ths):
            continue
        # the throwing branch must not reach the use; the test must dominate the use
        cv = g.vertex_of.get(c['id'])
        if cv is None or not g.dominates(cv, uv):
            continue
        first = [g.vertex_of.get(x) for x in tb if g.vertex_of.get(x) is not None]
        if first and uv in g.reach(first[:1], include_start=True):
            continue
        return True
    # the same test inside a validator helper called on a dominating path
    import validators
    for vg in validators.virtual_guards(f.prog, f, R):
        if vg['throw_t'] != OOR:
            continue
        cv = g.vertex_of.get(vg['call'])
        if cv is None or not g.dominates(cv, uv):
            continue
        size = 'this.%s.size' % fld
        for l, op, r, _ in validators.throw_atoms(f.prog, vg, lambda x: x):
            if (op == '>=' and l == want_a and r == size) or (op == '<=' and l == size and r == want_a):
                return True
    return False


def name_equality(f, cond_id, loopvar, pid, positional_names, container):
    """condition is an exact equality between element(loopvar).name() and the parameter.
    returns (True, '') or (False, why)"""
    R = Renderer(f)
    c = f.nodes[f.strip(cond_id, 'all')]
    sides = None
    if c['k'] == 'UnaryOperator' and c['op'] == '!':
        inner = f.nodes[f.strip(c['ch'][0], 'all')]
        if inner['k'] == 'CXXMemberCallExpr' and inner['callee']['name'] == 'compare' and len(inner['args']) == 1 \
                and inner['callee'].get('classq') == 'std::basic_string':
            sides = (inner['obj'], inner['args'][0])
    elif c['k'] == 'BinaryOperator' and c['op'] == '==':
        l = f.nodes[f.strip(c['ch'][0], 'all')]
        if l['k'] == 'CXXMemberCallExpr' and l['callee']['name'] == 'compare' and len(l['args']) == 1 and \
                f.nodes[f.strip(c['ch'][1], 'all')].get('cv') == '0':
            sides = (l['obj'], l['args'][0])
    elif c['k'] == 'CXXOperatorCallExpr' and c.get('op') == '==':
        sides = (c['args'][0], c['args'][1])
    if sides is None:
        return False, 'condition is not an exact string equality (compare()==0 / ==)'
    rs = [R.render(s) for s in sides]
    pidx = [p['id'] for p in f.params].index(pid)
    pa = 'arg%d' % pidx
    if pa not in rs:
        return False, 'one side must be the bare name parameter (found %s)' % rs
    other = rs[0] if rs[1] == pa else rs[1]
    # accepted element-name forms: this.<container>[i]._name ; this.positional(i)._name ; ....name()
    lv = 'local:%s' % loopvar['name']
    forms = {'this.%s[%s]._name' % (container, lv)}
    for pn in positional_names:
        forms.add('this.%s(%s)._name' % (pn, lv))
    if other not in forms:
        return False, 'other side is %s, expected the name of the element at the loop index' % other
    return True, ''


def check_index_by_name(prog, res, f, positional_of_class, size_getters):
    """-> container field the function searches, or None"""
    inst = f.sig
    pid = f.params[0]['id']
    R = Renderer(f)
    fors = [n for n in f.all_nodes({'ForStmt'})]
    other = [n for n in f.all_nodes({'CXXForRangeStmt', 'WhileStmt', 'DoStmt'})]
    algo = [n for n in f.calls() if n['callee']['qname'] in ('std::find_if', 'std::find', 'std::distance', 'std::any_of')]
    if len(fors) != 1 or other or algo:
        res.undecided('index-by-name', inst, f.loc(), 'the name search is not written as one counted index loop (range-for / std algorithm / several loops): the first-exact-match rule cannot be read off',
                      function=f.sig, expr='loops')
        return None
    lf = normal_for(f, fors[0]['id'])
    if lf is None:
        res.undecided('index-by-name', inst, f.loc(fors[0]['id']), 'search loop is not in normal form (T i = start; i < bound; ++i with i unmodified)', function=f.sig, expr='normal-form')
        return None
    if lf['start_cv'] != '0' or lf['op'] != '<':
        res.viol('index-by-name', inst, f.loc(fors[0]['id']),
                 'search loop must run over [0, size): start=%s cmp=%s' % (lf['start_cv'], lf['op']), function=f.sig, expr='range')
        return None
    b = R.render(lf['bound'])
    m = re.match(r'^this\.(\w+)\.size$', b)
    if not m:
        res.viol('index-by-name', inst, f.loc(fors[0]['id']), 'loop bound %s is not the size of a member container' % b, function=f.sig, expr='bound')
        return None
    container = m.group(1)
    pos_names = [p.name for p, c in positional_of_class if c == container]
    rets = [n for n in f.all_nodes({'ReturnStmt'})]
    inloop = [r for r in rets if r['id'] in f.descendants(lf['body'])]
    outloop = [r for r in rets if r not in inloop]
    good = True
    if len(inloop) != 1 or outloop:
        res.viol('index-by-name', inst, f.loc(), 'expected exactly one return, inside the loop (first match); found %d inside, %d outside' % (len(inloop), len(outloop)),
                 function=f.sig, expr='returns')
        return container
    r = inloop[0]
    rv = f.nodes[f.strip(r['ch'][0], 'all')]
    if not (rv['k'] == 'DeclRefExpr' and rv['decl'].get('id') == lf['var']):
        res.viol('index-by-name', inst, f.loc(r['id']), 'returns something other than the loop index', function=f.sig, expr='return-value')
        good = False
    # the return must be the then-branch of an if whose condition is the equality; no else
    par = None
    for p in f.ancestors(r['id']):
        if f.nodes[p]['k'] == 'IfStmt':
            par = f.nodes[p]
            break
        if f.nodes[p]['k'] == 'ForStmt':
            break
    if par is None or r['id'] not in f.descendants(par['then']):
        res.viol('index-by-name', inst, f.loc(r['id']), 'return is not guarded by a name test', function=f.sig, expr='guard')
        return container
    okc, why = name_equality(f, par['cond'], lf, pid, pos_names, container)
    if not okc:
        res.viol('index-by-name', inst, f.loc(par['id']), why, function=f.sig, expr='equality')
        good = False
    # nothing else in the loop body: body is exactly that if (no break/continue/other effects)
    body = f.nodes[lf['body']]
    stmts = body['ch'] if body['k'] == 'CompoundStmt' else [lf['body']]
    if [f.strip(s) for s in stmts] != [par['id']]:
        res.viol('index-by-name', inst, f.loc(lf['body']), 'search loop body contains more than the name test', function=f.sig, expr='body')
        good = False
    # fall-through: the statement after the loop is throw invalid_argument
    top = f.nodes[f.body]['ch']
    after = top[top.index(fors[0]['id']) + 1:] if fors[0]['id'] in top else None
    if after is None or len(after) != 1:
        res.viol('index-by-name', inst, f.loc(), 'expected `throw std::invalid_argument` right after the search loop', function=f.sig, expr='fallthrough')
        good = False
    else:
        th = f.nodes[f.strip(after[0], 'all')]
        if th['k'] != 'CXXThrowExpr' or th.get('throw_t') != INVARG:
            res.viol('index-by-name', inst, f.loc(after[0]), 'not-found must throw std::invalid_argument (found %s %s)' % (th['k'], th.get('throw_t')),
                     function=f.sig, expr='fallthrough-class')
            good = False
    if top[:top.index(fors[0]['id'])] if fors[0]['id'] in top else True:
        res.viol('index-by-name', inst, f.loc(), 'statements before the search loop', function=f.sig, expr='prefix')
        good = False
    if good:
        res.ok('index-by-name', inst, f.loc(), 'first exact match over [0,%s.size), else std::invalid_argument' % container, function=f.sig, expr='all')
    return container


def model_index_by_name(f, container, alias):
    """walk the function on every model with 0..3 elements named over {A, a, B} and the argument A:
    the outcome must be `return (first k with name[k] == A)` or `throw std::invalid_argument` when there is none.
    -> ('ok', nrows) | ('mismatch', description) | ('undecided', why)"""
    import itertools
    import a7
    nrows = 0
    for n, ARG in itertools.product(range(4), ('A', 'a', 'A ')):      # 'A ': a space-padded query matches no stored (trimmed) name
        for combo in itertools.product(('A', 'a', 'B'), repeat=n):
            model = {'this.%s.size' % container: n, 'arg0': ARG, '#alias': dict(alias)}
            for k, nm in enumerate(combo):
                model['this.%s[%d]._name' % (container, k)] = nm
            want = ('return', combo.index(ARG)) if ARG in combo else ('throw', INVARG)
            st = {}
            try:
                events, end, undec = a7.walk(f, model, follow_loops=True, state=st, max_steps=2000)
            except a7.OutOfRange as e:
                return 'mismatch', 'with %d element(s) named %s the search reads element %s' % (n, list(combo), e)
            if end.startswith('undecided') or end == 'loop':
                why = ''
                if undec:
                    why = Renderer(f).render(undec[-1][0])
                return 'undecided', 'a condition cannot be evaluated on the model (%s)' % why[:120]
            if end.startswith('throw:'):
                got = ('throw', end[6:].split('@')[0])
            elif 'ret' in st and st['ret'] is not None:
                got = ('return', st['ret'])
            elif 'ret_node' in st:
                return 'undecided', 'the returned value cannot be evaluated on the model'
            else:
                got = ('end', end)
            nrows += 1
            if got != want:
                return 'mismatch', 'with %d element(s) named %s and the name %s asked for, the outcome is %s %s; the first exact match rule gives %s %s' % (n, list(combo), ARG, got[0], got[1], want[0], want[1])
    return 'ok', nrows


def index_by_name(prog, res, f, cls_pos, vecs):
    """first-exact-match rule: read off the usual loop shape; any other shape is decided by walking the
    function on finite models (never a verdict from the shape alone)"""
    # "the first element with exactly that name" is a function of the container and the name: a look-up that writes to the
    # object (through a mutable member) answers according to what was asked before
    import effects as _FX
    own = sorted({_FX.fmt(e) for e in _FX.get(prog).of(f) if e[0] == 'this'})
    if own and f.rec.get('const'):
        res.viol('index-by-name', f.sig, f.loc(), 'the const look-up modifies the object (%s): with two elements of the same name the answer depends on earlier look-ups, not on the first match' % own[:2],
                 function=f.sig, expr='stateful-lookup')
        return None
    tmp = Result('x', 'quick', '')
    cont = check_index_by_name(prog, tmp, f, cls_pos, None)
    if tmp.obs and all(o['verdict'] == 'ok' for o in tmp.obs):
        res.obs.extend(tmp.obs)
        return cont
    cands = [cont] if cont else [c for c, el in vecs.items() if any(fl['name'] == '_name' for fl in prog.classes.get(el, {}).get('fields', []))]
    verdicts = []
    for c in cands:
        alias = {p.name: cc for p, cc in cls_pos if cc == c}
        v, info = model_index_by_name(f, c, alias)
        verdicts.append((c, v, info))
        if v == 'ok':
            res.ok('index-by-name', f.sig, f.loc(), 'not the usual loop shape; walked on %d finite models (0..3 elements named over {A, a, B}): first exact match over %s, else std::invalid_argument' % (info, c),
                   function=f.sig, expr='all')
            return c
    mism = [x for x in verdicts if x[1] == 'mismatch']
    if mism:
        c, _, info = mism[0]
        shape = '; '.join(o['detail'] for o in tmp.obs if o['verdict'] != 'ok')[:300]
        res.viol('index-by-name', f.sig, f.loc(), '%s [%s]' % (info, shape), function=f.sig, expr=(tmp.obs[0]['expr'] if len(tmp.obs) == 1 else 'model'))
        return c
    res.undecided('index-by-name', f.sig, f.loc(), 'the name search is not in the usual loop shape and cannot be walked on finite models: %s' %
                  '; '.join('%s: %s' % (c, info) for c, _, info in verdicts)[:300], function=f.sig, expr='loops')
    return cont


def run(prog, tier):
    res = Result('C11', tier,
                 'Inventory by signature shape with frozen minimum sizes, then per-accessor discipline rules on '
                 'the expression tree and CFG: positional accessors return member.at(idx) on the unmodified, '
                 'full-width index and every handler re-throws std::out_of_range (so any index >= size, incl. 2^32 '
                 'and 2^64-1, throws); index-by-name functions are first-exact-match loops over [0,size) ending in '
                 'std::invalid_argument; by-name accessors are positional(indexByName(name)) on the same container; '
                 'typed getters throw std::invalid_argument iff the stored type is not their own (enumerated over '
                 'all DATA_TYPE values); every store to Point::_name/Channel::_name passed through the trimmer.',
                 assumptions=['std::vector::at throws std::out_of_range for every idx >= size()',
                              'std::string::compare(s) == 0 iff the strings are equal'],
                 not_decided=['the text of the error messages'])
    positional = []   # (Func, container)
    idxfns = []       # (Func, container)
    byname = []
    # ---- inventories ------------------------------------------------------------------------
    for q, c in sorted(prog.classes.items()):
        vecs = {fl['name']: vec_elem(fl['type']) for fl in c['fields'] if vec_elem(fl['type'])}
        if not vecs:
            continue
        cand_pos, cand_idx, cand_name = [], [], []
        for m in c['methods']:
            if m['access'] != 'public' or m['implicit'] or m['kind'] != 'method' or len(m['params']) != 1:
                continue
            f = prog.funcs.get(m['usr'])
            pt = m['params'][0]['type']
            rt = m['ret']
            if pt == SIZE_T and rt != 'void' and strip_cref(rt) in [v for v in vecs.values()]:
                cand_pos.append((m, f))
            elif pt in STR_TYPES and rt == SIZE_T:
                cand_idx.append((m, f))
            elif pt in STR_TYPES and strip_cref(rt) in [v for v in vecs.values()] and rt.endswith('&'):
                cand_name.append((m, f))
        for m, f in cand_pos:
            if f is None:
                res.undecided('positional', m['qname'], 'include/', 'declared but not defined', function=m['qname'], expr='undefined')
                continue
            cont = check_positional(prog, res, q, m, f, set(vecs))
            positional.append((f, cont))
        cls_pos = [(f, cont) for f, cont in positional if f.cls == q]
        for m, f in cand_idx:
            if f is None:
                continue
            cont = index_by_name(prog, res, f, cls_pos, vecs)
            idxfns.append((f, cont))
        cls_idx = [(f, cont) for f, cont in idxfns if f.cls == q]
        for m, f in cand_name:
            if f is None:
                continue
            byname.append(f)
            check_by_name(prog, res, f, cls_pos, cls_idx, set(vecs))
    # ---- a name index kept next to the elements (map name -> position) must see every way a name can change -----
    E_ = None
    for q, c in sorted(prog.classes.items()):
        if not q.startswith('ezc3d::'):
            continue
        vecs_ = {fl['name']: vec_elem(fl['type']) for fl in c['fields'] if vec_elem(fl['type'])}
        maps_ = [fl for fl in c['fields'] if re.match(r'^(?:const )?std::(?:unordered_)?map<std::(?:basic_string<char>|string)', fl['type'])]
        if not vecs_ or not maps_:
            continue
        import effects as _FX
        E_ = E_ or _FX.get(prog)
        for mp in maps_:
            for m in c['methods']:
                if m['implicit'] or m['kind'] != 'method' or not m['ret'].endswith('&') or m['ret'].startswith('const '):
                    continue
                if strip_cref(m['ret']) not in vecs_.values():
                    continue
                g_ = prog.funcs.get(m['usr'])
                if g_ is None or g_.body is None:
                    continue
                touched = [e for e in E_.events_of(g_, 'this') if e[2] and e[2][0] == mp['name']]
                inst = '%s::%s vs the name index %s' % (q.split('::')[-1], m['name'], mp['name'])
                if touched:
                    res.ok('name-index', inst, g_.loc(), 'the accessor that hands out a mutable element resets the index', function=g_.sig, expr='index:' + m['name'], nontrivial=False)
                else:
                    res.viol('name-index', inst, g_.loc(), '%s hands out a mutable element (its name can be changed through name()) without touching the name index `%s`: a look-up by name then answers from stale '
                             'positions - the renamed element is not found under its new name and still found under the old one' % (m['name'], mp['name']), function=g_.sig, expr='index:' + m['name'])
    # ---- reported size = size of the container the positional accessors index -----------------
    nsz = 0
    pos_conts = {}
    for f_, cont in positional:
        if cont:
            pos_conts.setdefault(f_.cls, set()).add(cont)
    for q, conts in sorted(pos_conts.items()):
        for m in prog.classes[q]['methods']:
            if m['access'] != 'public' or m['implicit'] or m['kind'] != 'method' or m['params'] or m['ret'] != SIZE_T or not m['name'].startswith('nb') or not m.get('const'):
                continue
            g_ = prog.funcs.get(m['usr'])
            if g_ is None or g_.body is None:
                continue
            Rg = Renderer(g_)
            rets = [Rg.render(r_['ch'][0]) for r_ in g_.all_nodes({'ReturnStmt'}) if r_.get('ch')]
            rets = [re.sub(r'^\((?:unsigned |signed )?\w[\w ]*\)', '', r_) for r_ in rets]
            inst = '%s::%s()' % (q.split('::')[-1], m['name'])
            hit = [c_ for c_ in conts if rets == ['this.%s.size' % c_]]
            mention = [c_ for c_ in conts if any(('this.' + c_) in r_ for r_ in rets)]
            if hit:
                nsz += 1
                res.ok('reported-size', inst, g_.loc(), 'returns the size of %s, the container the positional accessor indexes' % hit[0], function=g_.sig, expr='size:' + m['name'])
            elif mention:
                nsz += 1
                res.viol('reported-size', inst, g_.loc(), 'the reported size is %s, not the size of %s, which the positional accessor indexes: positions between the reported and the real size return an element '
                         'instead of throwing std::out_of_range, and every search that runs to the reported size stops short' % (rets, mention[0]), function=g_.sig, expr='size:' + m['name'], sure=True)
    res.minimum('size accessors of positionally indexed containers', nsz, 5)
    res.minimum('positional accessors', len(positional), 15)
    res.minimum('index-by-name functions', len(idxfns), 4)
    res.minimum('by-name accessors', len(byname), 8)

    # ---- typed getters ------------------------------------------------------------------------
    P = 'ezc3d::ParametersNS::GroupNS::Parameter'
    nget = 0
    for m in prog.classes[P]['methods']:
        if m['kind'] == 'method' and m['access'] == 'public' and not m['params'] and m['ret'].startswith('const std::vector<') and m['ret'].endswith('&'):
            f = prog.funcs.get(m['usr'])
            if f is None:
                continue
            nget += 1
            spec = TYPED.get(f.name)
            if spec is None:
                res.undecided('typed-getter', f.sig, f.loc(), 'getter not in the contract table', function=f.sig, expr='unknown-getter')
                continue
            check_typed_getter(prog, res, f, spec)
    res.minimum('typed getters', nget, 4)
    # setter/getter agreement: the field a typed setter stores under type X is the field the getter of X returns
    for f in prog.fns(P + '::set'):
        if len(f.params) == 2 and f.params[0]['type'].startswith('const std::vector<'):
            tconst = None
            fld = None
            for g, nid, rhs in _c18.field_writes(prog, P, '_data_type'):
                if g is f and rhs is not None:
                    tconst = f.nodes[f.strip(rhs, 'all')].get('cv')
            for fl in ('_param_data_int', '_param_data_float', '_param_data_string'):
                for g, nid, rhs in _c18.field_writes(prog, P, fl):
                    if g is f:
                        fld = fl
            getter = [k for k, v in TYPED.items() if str(v[0]) == str(tconst)]
            if tconst is None or fld is None or not getter:
                res.undecided('typed-getter', f.sig, f.loc(), 'cannot read the setter\'s type constant / field', function=f.sig, expr='setter')
            elif TYPED[getter[0]][1] == fld:
                res.ok('typed-getter', '%s stores %s under type %s = what %s returns' % (f.sig.split('::')[-1], fld, tconst, getter[0]), f.loc(), function=f.sig, expr='setter-agree')
            else:
                res.viol('typed-getter', f.sig, f.loc(), 'setter stores %s under type %s but %s returns %s' % (fld, tconst, getter[0], TYPED[getter[0]][1]),
                         function=f.sig, expr='setter-agree')

    # ---- names stored trimmed ---------------------------------------------------------------
    nstores = 0
    for q in NAMED_CLASSES:
        if q not in prog.classes:
            raise AnalysisBroken('class %s vanished' % q)
        for f, nid, rhs in _c18.field_writes(prog, q, '_name'):
            if f.implicit:
                continue
            nstores += 1
            ok, why = trimmed_store(f, nid, rhs, q)
            if ok is None:
                res.undecided('trimmed-name', '%s::_name' % q.split('::')[-1], f.loc(nid), why, function=f.sig, expr='_name')
            elif ok:
                res.ok('trimmed-name', '%s::_name' % q.split('::')[-1], f.loc(nid), why, function=f.sig, expr='_name@%d' % nid)
            else:
                res.viol('trimmed-name', '%s::_name' % q.split('::')[-1], f.loc(nid), why, function=f.sig, expr='_name')
        # every constructor taking a name must route it to _name through the setter or a trimmed store
        for f in prog.repo_funcs():
            if f.cls == q and f.kind == 'ctor' and not f.rec.get('copy') and not f.rec.get('move') and f.params:
                calls_setter = any(n['callee']['qname'] == q + '::name' and n['callee']['nparams'] == 1 for n in f.calls())
                stores = [1 for g, _, _ in _c18.field_writes(prog, q, '_name') if g is f]
                if calls_setter or stores:
                    res.ok('trimmed-name', 'naming constructor of %s' % q.split('::')[-1], f.loc(), 'name goes through the setter' if calls_setter else 'direct store (judged above)',
                           function=f.sig, expr='ctor')
                else:
                    res.viol('trimmed-name', 'naming constructor of %s' % q.split('::')[-1], f.loc(), 'constructor ignores its name argument', function=f.sig, expr='ctor')
    res.minimum('stores to Point::_name / Channel::_name', nstores, 2)
    check_trimmer(prog, res)
    return res


def trimmed_store(f, nid, rhs, cls):
    # stored first, then trimmed in place: removeTrailingSpaces(_name) on every path from the store to the normal exit
    g0 = f.events()
    sv0 = g0.vertex_of.get(nid)
    R0 = Renderer(f)
    tv = {g0.vertex_of.get(n['id']) for n in f.calls() if n['callee']['qname'] == 'ezc3d::removeTrailingSpaces' and R0.render(n['args'][0]) == 'this._name'}
    tv.discard(None)
    if sv0 is not None and tv and g0.NEXIT not in g0.reach([sv0], avoid=tv):
        return True, 'trimmed in place by ezc3d::removeTrailingSpaces(_name) on every path after the store'
    if rhs is None:
        return False, 'name modified in place'
    kind, path = root_of(f, rhs)
    m = f.nodes[f.strip(rhs, 'all')]
    # copy of the same field of another object of the class
    if m['k'] == 'MemberExpr' and m.get('mk') == 'field' and m['member'] == '_name' and m.get('fclass') == cls:
        return True, 'copy of the (already trimmed) name of another %s' % cls.split('::')[-1]
    if m['k'] == 'DeclRefExpr' and m['decl'].get('dk') == 'local':
        vid = m['decl']['id']
        g = f.events()
        sv = g.vertex_of.get(nid) or g.vertex_of.get(f.strip(rhs, 'all'))
        trims = []
        mods = []
        for n in f.calls():
            for a in f.call_args(n):
                an = f.nodes[f.strip(a, 'all')]
                if an['k'] == 'DeclRefExpr' and an['decl'].get('id') == vid and an['decl'].get('dk') == 'local':
                    if n['callee']['qname'] == 'ezc3d::removeTrailingSpaces':
                        trims.append(n['id'])
                    else:
                        pts = n['callee'].get('ptypes', [])
                        idx = f.call_args(n).index(a)
                        if idx < len(pts) and pts[idx].endswith('&') and not pts[idx].startswith('const '):
                            mods.append(n['id'])
            o = f.call_obj(n)
            if o is not None and not n['callee'].get('const'):
                on = f.nodes[f.strip(o, 'all')]
                if on['k'] == 'DeclRefExpr' and on['decl'].get('id') == vid and on['decl'].get('dk') == 'local':
                    mods.append(n['id'])
        for t in trims:
            tv = g.vertex_of.get(t)
            if tv is None or sv is None or not g.dominates(tv, sv):
                continue
            # no modification of the local between the trim and the store
            between = g.reach([tv])
            if any(g.vertex_of.get(x) in between and g.vertex_of.get(x) is not None and sv in g.reach([g.vertex_of.get(x)]) for x in mods if x != t):
                continue
            return True, 'stored value passed through ezc3d::removeTrailingSpaces at %s' % f.loc(t)
        return False, 'stored from local `%s` that did not pass through ezc3d::removeTrailingSpaces on every path' % m['decl']['name']
    # trimmed on the way:  X.substr(0, X.find_last_not_of(' ') + 1)   (npos + 1 == 0: an all-space name becomes empty)
    r_ = R0.render(rhs)
    mt = re.match(r'^(.+)\.substr\(0,\(?(.+)\.find_last_not_of\(32(?:,18446744073709551615)?\) \+ 1\)?\)$', r_)
    if mt and mt.group(1) == mt.group(2):
        return True, 'stored value is %s cut behind its last character that is not a space' % mt.group(1)
    if m['k'] == 'CallExpr' and m.get('callee', {}).get('qname') == 'std::move' and m.get('args'):
        pm = f.nodes[f.strip(m['args'][0], 'all')]
        if pm['k'] == 'DeclRefExpr' and pm['decl'].get('dk') == 'param':
            # name(std::string&&): the argument is moved into the member - trimmed before the move, or not at all
            gm = f.events()
            svm = gm.vertex_of.get(nid) or gm.vertex_of.get(f.strip(rhs, 'all'))
            tr_ = [n for n in f.calls() if n['callee']['qname'] == 'ezc3d::removeTrailingSpaces' and f.nodes[f.strip(n['args'][0], 'all')].get('decl', {}).get('id') == pm['decl']['id']]
            if any(gm.vertex_of.get(t_['id']) is not None and svm is not None and gm.dominates(gm.vertex_of[t_['id']], svm) for t_ in tr_):
                return True, 'the argument is trimmed by ezc3d::removeTrailingSpaces and then moved into the name'
            return False, 'the argument is moved into the name as given%s: trailing spaces are kept' % (' (it is trimmed only afterwards, when it no longer holds the text)' if tr_ else '')
    if kind in ('param', 'param-value') and m['k'] == 'DeclRefExpr':
        return False, 'the argument is stored as given (source: %s %s): trailing spaces are kept' % (kind, '.'.join(path))
    return None, 'the stored value (%s) is computed in a form the rule does not read [shape not read by the rule]' % r_[:120]


def model_by_name(f, cont, alias):
    """walk the by-name accessor on models of 0..2 distinctly named elements: it returns normally exactly
    when an element has the argument's name, and throws std::invalid_argument otherwise"""
    import itertools
    import a7
    rows = 0
    for n_ in range(3):
        for combo in itertools.permutations(('A', 'a', 'B'), n_):
            model = {'this.%s.size' % cont: n_, 'arg0': 'A', '#alias': dict(alias)}
            for k, nm in enumerate(combo):
                model['this.%s[%d]._name' % (cont, k)] = nm
            try:
                _, end, und = a7.walk(f, model, follow_loops=True, max_steps=1500)
            except a7.OutOfRange as e:
                return 'mismatch', 'with elements named %s the accessor reads element %s unchecked' % (list(combo), e)
            if end.startswith('undecided') or end == 'loop':
                return 'undecided', end
            want = 'NEXIT' if 'A' in combo else 'throw:' + INVARG
            rows += 1
            if end.split('@')[0] != want:
                return 'mismatch', 'with elements named %s and the name A asked for, the accessor ends in %s; specified %s' % (list(combo), end.split('@')[0], 'the element' if 'A' in combo else INVARG)
    return 'ok', rows


def check_by_name(prog, res, f, cls_pos, cls_idx, vecs):
    from result import Result as _R
    tmp = _R('x', 'quick', '')
    _check_by_name(prog, tmp, f, cls_pos, cls_idx, vecs)
    if tmp.obs and all(o['verdict'] == 'ok' for o in tmp.obs):
        res.obs.extend(tmp.obs)
        return
    # another spelling (direct subscript with the index function's result, the const twin through const_cast, ...):
    # the returned reference must designate an element of a member container, and the outcome is walked on finite models
    rets = [n for n in f.all_nodes({'ReturnStmt'}) if n['ch']]
    roots = {tuple([k_] + p_) for k_, p_ in (root_of(f, r['ch'][0]) for r in rets)}
    if len(roots) == 1:
        (k_, *p_), = roots
        if k_ == 'this' and len(p_) == 2 and p_[1] == '[]' and p_[0] in vecs:
            alias = {p.name: c for p, c in cls_pos if c == p_[0]}
            v, info = model_by_name(f, p_[0], alias)
            if v == 'ok':
                res.ok('by-name', f.sig, f.loc(), 'designates an element of %s; walked on %s finite models: returns when an element has the name, std::invalid_argument otherwise' % (p_[0], info), function=f.sig, expr='all')
                return
            if v == 'mismatch':
                res.viol('by-name', f.sig, f.loc(), info, function=f.sig, expr='model')
                return
    res.undecided('by-name', f.sig, f.loc(), 'the accessor is not `positional(indexByName(name))` and cannot be walked on finite models (%s)' %
                  '; '.join(o['detail'] for o in tmp.obs if o['verdict'] != 'ok')[:200], function=f.sig, expr='shape')


def _check_by_name(prog, res, f, cls_pos, cls_idx, vecs):
    inst = f.sig
    pid = f.params[0]['id']
    rets = [n for n in f.all_nodes({'ReturnStmt'})]
    body = f.nodes[f.body]
    if len(rets) != 1 or len(body['ch']) != 1:
        res.viol('by-name', inst, f.loc(), 'expected a single `return positional(indexByName(name))`', function=f.sig, expr='shape')
        return
    e = f.nodes[f.strip(rets[0]['ch'][0], 'all')]
    cont = None
    inner = None
    if e['k'] == 'CXXMemberCallExpr' and e['callee'].get('classq') == 'std::vector' and e['callee']['name'] == 'at':
        cont = this_field(f, e['obj'])
        inner = f.call_args(e)[0]
    elif e['k'] == 'CXXMemberCallExpr' and f.nodes[f.strip(e['obj'], 'all')]['k'] == 'CXXThisExpr':
        for p, c in cls_pos:
            if p.usr == e['callee']['usr']:
                cont = c
                inner = e['args'][0]
    if cont is None or inner is None:
        res.viol('by-name', inst, f.loc(rets[0]['id']), 'does not return through a bounds-checked positional accessor of this class', function=f.sig, expr='outer')
        return
    i = f.nodes[f.strip(inner, 'all')]
    ok = False
    if i['k'] == 'CXXMemberCallExpr' and f.nodes[f.strip(i['obj'], 'all')]['k'] == 'CXXThisExpr' and len(i['args']) == 1:
        for g, c in cls_idx:
            if g.usr == i['callee']['usr'] and c == cont and is_param(f, i['args'][0], pid, 'all'):
                ok = True
    if ok:
        res.ok('by-name', inst, f.loc(rets[0]['id']), 'positional(indexByName(name)) on container %s' % cont, function=f.sig, expr='all')
    elif i['k'] == 'CXXMemberCallExpr' and any(g.usr == i['callee']['usr'] and c is None for g, c in cls_idx):
        res.undecided('by-name', inst, f.loc(rets[0]['id']), 'goes through an index-by-name function whose search could not be read', function=f.sig, expr='inner')
    else:
        res.viol('by-name', inst, f.loc(rets[0]['id']),
                 'index is not indexByName(name) over the same container (%s): name and position look-ups may disagree' % cont, function=f.sig, expr='inner')


def check_typed_getter(prog, res, f, spec):
    want_type, want_field = spec
    g = f.events()
    rets = [n for n in f.all_nodes({'ReturnStmt'})]
    R = Renderer(f)
    bad = False
    for r in rets:
        fld = this_field(f, r['ch'][0]) if r['ch'] else None
        if fld != want_field:
            res.viol('typed-getter', f.sig, f.loc(r['id']), 'returns %s, the values of type %s live in %s' % (fld, want_type, want_field), function=f.sig, expr='field')
            bad = True
    # enumerate the stored type: walk the CFG deciding every branch on _data_type
    from facts import eval_bool
    for tv in DATA_TYPE_VALUES:
        def atom(i, tv=tv):
            n = f.nodes[i]
            if n['k'] == 'BinaryOperator' and n['op'] in ('==', '!='):
                l, r = R.render(n['ch'][0]), R.render(n['ch'][1])
                for a, b in ((l, r), (r, l)):
                    if a.endswith('this._data_type') and re.match(r'^(\(\w[\w ]*\))?-?\d+$', b):
                        val = int(re.sub(r'^\([^)]*\)', '', b))
                        return (tv == val) if n['op'] == '==' else (tv != val)
            return None
        outcome = walk_outcome(f, g, atom)
        want = 'return' if tv == want_type else 'throw:' + INVARG
        if outcome != {want}:
            # the guard may live in a helper: walk with the finite-model walker, which looks into throwing helpers
            import a7
            try:
                _, end, und = a7.walk(f, {'this._data_type': tv}, follow_loops=True, max_steps=500)
            except a7.OutOfRange:
                end = 'undecided'
            o2 = 'return' if end == 'NEXIT' else (end.split('@')[0] if end.startswith('throw:') else 'undecided')
            if o2 == 'undecided':
                # the test also looks at the dimensions / the amount of data: enumerate a few reachable shapes (a parameter set from n values has
                # dimension [n]; [] is the shape of a fresh parameter) - the outcome must be the documented one in each
                outs = {}
                for dims in ((), (0,), (1,), (2,), (2, 0), (1, 2)):
                    m = {'this._data_type': tv, 'this._dimension.size': len(dims)}
                    prod = 1
                    for k_, d_ in enumerate(dims):
                        m['this._dimension[%d]' % k_] = d_
                        prod *= d_
                    for fl in ('_param_data_int', '_param_data_float', '_param_data_string'):
                        m['this.%s.size' % fl] = prod if dims else 0
                    try:
                        _, e2, _u = a7.walk(f, m, follow_loops=True, max_steps=2000)
                    except a7.OutOfRange:
                        e2 = 'undecided'
                    outs[dims] = 'return' if e2 == 'NEXIT' else (e2.split('@')[0] if e2.startswith('throw:') else 'undecided')
                wrong = {d_: o_ for d_, o_ in outs.items() if o_ not in ('undecided', want)}
                if wrong:
                    d0 = sorted(wrong)[0]
                    res.viol('typed-getter', f.sig, f.loc(), 'with stored type %d and dimensions %s the getter ends in %s, documented: %s' % (tv, list(d0), wrong[d0], want),
                             function=f.sig, expr='type=%d' % tv, sure=True)
                    bad = True
                    continue
                if all(o_ == want for o_ in outs.values()):
                    continue
                res.undecided('typed-getter', f.sig, f.loc(), 'with stored type %d the outcome cannot be evaluated (%s)' % (tv, end), function=f.sig, expr='type=%d' % tv)
                bad = True
                continue
            outcome = {o2}
        if outcome != {want}:
            res.viol('typed-getter', f.sig, f.loc(), 'with stored type %d the getter ends in %s, documented: %s' % (tv, sorted(outcome), want),
                     function=f.sig, expr='type=%d' % tv)
            bad = True
    if not bad:
        res.ok('typed-getter', f.sig, f.loc(), 'throws std::invalid_argument iff stored type != %d; returns %s (5 type values enumerated)' % (want_type, want_field),
               function=f.sig, expr='all')


def walk_outcome(f, g, atom):
    """follow the event graph from ENTRY deciding branches with atom(); returns set of outcomes
    {'return', 'throw:<type>', 'undecided'}"""
    from facts import eval_bool
    out = set()
    seen = set()
    st = [g.ENTRY]
    while st:
        v = st.pop()
        if v in seen:
            continue
        seen.add(v)
        if v == g.NEXIT:
            out.add('return')
            continue
        if v == g.XEXIT:
            continue
        nid = g.node_of(v) if isinstance(v, tuple) else None
        if nid is not None and f.nodes[nid]['k'] == 'CXXThrowExpr':
            out.add('throw:' + str(f.nodes[nid].get('throw_t')))
            continue
        if v in g.branch and not g.branch[v]['tempdtor'] and g.branch[v]['cond'] >= 0 and len(g.branch[v]['targets']) == 2:
            val = eval_bool(f, g.branch[v]['cond'], atom)
            if val is True:
                st.extend(g.branch[v]['targets'][0])
            elif val is False:
                st.extend(g.branch[v]['targets'][1])
            else:
                st.extend(g.branch[v]['targets'][0] + g.branch[v]['targets'][1])
        else:
            # ignore EH edges added for calls (string construction etc.)
            seq = g.succ.get(v, [])
            nh = [s for s in seq if not (isinstance(s, tuple) and g.blocks[s[0]].get('labelk') == 'CXXCatchStmt' and s[1] == 0)]
            st.extend(nh or seq)
    return out


def check_trimmer(prog, res, rule='trimmed-name'):
    """ezc3d::removeTrailingSpaces takes the string by non-const reference and removes every trailing
    space.  Two idioms are known: (A) a loop that pops the last character while it is a space;
    (B) erase from find_last_not_of(' ') + 1 — which must also empty a string made only of spaces
    (unguarded erase: npos + 1 == 0, or an explicit clear on the npos branch).  Any other shape is
    UNDECIDED."""
    f = prog.fn('ezc3d::removeTrailingSpaces', nparams=1)
    R = Renderer(f)
    if not f.params[0]['type'].endswith('&') or f.params[0]['type'].startswith('const '):
        res.viol(rule, 'removeTrailingSpaces signature', f.loc(), 'trimmer no longer modifies its argument in place', function=f.sig, expr='sig')
        return
    muts = [n for n in f.calls() if f.call_obj(n) is not None and not n['callee'].get('const') and n['callee'].get('classq') == 'std::basic_string'
            and n['callee']['name'] not in ('operator[]', 'at', 'back', 'front', 'begin', 'end')]
    names = sorted({n['callee']['name'] for n in muts})
    has_space = any((n['k'] == 'CharacterLiteral' and n['v'] == 32) or (n['k'] == 'StringLiteral' and n.get('v') == ' ') for n in f.nodes)
    finds = [n for n in f.calls() if n['callee']['name'] == 'find_last_not_of' and R.render(f.call_obj(n)) == 'arg0']
    if finds and names and set(names) <= {'erase', 'resize', 'clear', 'operator=', 'assign'}:
        # idiom B
        if not has_space:
            res.viol(rule, 'removeTrailingSpaces body', f.loc(), 'no space character in the search', function=f.sig, expr='space')
            return
        NPOS = '18446744073709551615'
        guarded = None
        for n in f.all_nodes({'IfStmt'}):
            c = R.render(n['cond'])
            if NPOS in c and ('!=' in c or '==' in c):
                guarded = n
        if guarded is None:
            er = [m for m in muts if m['callee']['name'] == 'erase']
            ok = len(er) == 1 and re.search(r'\+ 1\)?$|^\(1 \+', R.render(er[0]['args'][0])) is not None
            if ok:
                res.ok(rule, 'removeTrailingSpaces: erase(find_last_not_of(\' \') + 1)', f.loc(), 'unguarded: npos + 1 == 0 empties an all-space string', function=f.sig, expr='trimmer', nontrivial=False)
            else:
                res.undecided(rule, 'removeTrailingSpaces body', f.loc(), 'find_last_not_of idiom in a form the rule does not know', function=f.sig, expr='trimmer')
            return
        c = R.render(guarded['cond'])
        npos_branch = guarded.get('else') if '!=' in c else guarded['then']
        clears = []
        if npos_branch is not None:
            clears = [f.nodes[x] for x in f.descendants(npos_branch) if f.nodes[x]['k'] in ('CXXMemberCallExpr', 'CXXOperatorCallExpr') and 'callee' in f.nodes[x]
                      and f.nodes[x]['callee']['name'] in ('clear', 'erase', 'resize', 'operator=', 'assign')]
        if clears:
            res.ok(rule, 'removeTrailingSpaces: find_last_not_of with the all-space case handled', f.loc(), function=f.sig, expr='trimmer', nontrivial=False)
        else:
            res.viol(rule, 'removeTrailingSpaces: strings made only of spaces', f.loc(guarded['id']),
                     'the erase is skipped when find_last_not_of returns npos, so a string consisting only of spaces is left untouched instead of becoming empty',
                     function=f.sig, expr='trimmer-allspace')
        return
    # idiom C: erase(std::find_if(s.rbegin(), s.rend(), [](char c){ return c != ' '; }).base(), s.end())
    er = [m for m in muts if m['callee']['name'] == 'erase']
    if len(er) == 1 and set(names) == {'erase', 'rbegin', 'rend'} | (set(names) & {'end'}) and len(f.call_args(er[0])) == 2:
        def unconv(i):
            # iterator -> const_iterator conversions wrap the argument in a one-argument constructor
            n_ = f.nodes[f.strip(i, 'all')]
            while n_['k'] in ('CXXConstructExpr', 'CXXTemporaryObjectExpr') and len(n_.get('args', [])) == 1 and '_iterator' in n_['callee'].get('class', n_['callee'].get('qname', '')):
                n_ = f.nodes[f.strip(n_['args'][0], 'all')]
            return n_
        a0 = unconv(f.call_args(er[0])[0])
        a1 = R.render(unconv(f.call_args(er[0])[1])['id'])
        fi = None
        if a0['k'] == 'CXXMemberCallExpr' and a0['callee']['name'] == 'base' and a0.get('obj') is not None:
            c0 = f.nodes[f.strip(a0['obj'], 'all')]
            if c0['k'] == 'CallExpr' and c0['callee'].get('qname') == 'std::find_if':
                fi = c0
        if fi is not None and a1 == 'arg0.end()':
            fa = f.call_args(fi)
            rb, re_ = R.render(fa[0]), R.render(fa[1])
            lams = [n for n in f.nodes if n['k'] == 'LambdaExpr']
            pred_ok = False
            if len(lams) == 1:
                body = [x for x in lams[0]['ch'] if f.nodes[x]['k'] == 'CompoundStmt']
                st = [f.nodes[x] for x in f.nodes[body[0]]['ch']] if body else []
                if len(st) == 1 and st[0]['k'] == 'ReturnStmt' and st[0]['ch']:
                    e = f.nodes[f.strip(st[0]['ch'][0], 'all')]
                    if e['k'] == 'BinaryOperator' and e['op'] == '!=':
                        sides = [f.nodes[f.strip(x, 'all')] for x in e['ch']]
                        if any(x['k'] == 'CharacterLiteral' and x['v'] == 32 for x in sides) and any(x['k'] == 'DeclRefExpr' and x['decl'].get('dk') == 'param' for x in sides):
                            pred_ok = True
            if rb == 'arg0.rbegin()' and re_ == 'arg0.rend()' and pred_ok:
                res.ok(rule, 'removeTrailingSpaces: erase(find_if(rbegin, rend, c != \' \').base(), end())', f.loc(),
                       'everything after the last non-space character is erased; an all-space string is emptied (rend().base() == begin())', function=f.sig, expr='trimmer', nontrivial=False)
                return
    if not muts or any(nm not in ('pop_back', 'erase', 'resize') for nm in names):
        res.undecided(rule, 'removeTrailingSpaces body', f.loc(), 'trimmer mutates the string with %s: not an idiom the rule knows' % names, function=f.sig, expr='body')
        return
    if not has_space:
        res.viol(rule, 'removeTrailingSpaces body', f.loc(), 'no comparison with the space character', function=f.sig, expr='space')
        return
    # idiom A: the removal sits in a loop and is guarded by "last character is a space"
    pops = [m for m in muts if m['callee']['name'] in ('pop_back', 'erase', 'resize')]
    in_loop = all(any(f.nodes[a]['k'] in ('ForStmt', 'WhileStmt', 'DoStmt') for a in f.ancestors(m['id'])) for m in pops)
    if not in_loop:
        res.viol(rule, 'removeTrailingSpaces body', f.loc(pops[0]['id']), 'only one character can be removed: the removal is not inside a loop', function=f.sig, expr='loop')
        return
    res.ok(rule, 'removeTrailingSpaces pops trailing characters in a loop under a test against \' \'', f.loc(), function=f.sig, expr='trimmer', nontrivial=False)
