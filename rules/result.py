"""Obligations, verdicts, known findings, evidence and report writing (shared by all checks)."""
import json
import os
import time

VERIF = os.path.dirname(os.path.dirname(os.path.abspath(__file__)))

OK, VIOL, UNDEC = 'ok', 'violation', 'undecided'


class Result:
    def __init__(self, pid, tier, explanation, assumptions=(), not_decided=()):
        self.pid = pid
        self.tier = tier
        self.explanation = explanation
        self.assumptions = list(assumptions)
        self.not_decided = list(not_decided)
        self.obs = []          # obligations
        self.minimums = []     # (label, found, minimum)
        self.info = {}
        self.t0 = time.time()

    def ob(self, rule, instance, where, verdict, detail='', nontrivial=True, function=None,
           expr=None, facts=None):
        """record one rule instance.  key = (rule, function, expr) identifies it for known findings"""
        o = {'rule': rule, 'instance': instance, 'where': where, 'verdict': verdict,
             'detail': detail, 'nontrivial': nontrivial,
             'function': function or '', 'expr': expr if expr is not None else instance}
        if facts is not None:
            o['facts'] = facts
        self.obs.append(o)
        return o

    def ok(self, rule, instance, where, detail='', **kw):
        return self.ob(rule, instance, where, OK, detail, **kw)

    def viol(self, rule, instance, where, detail='', sure=False, **kw):
        # A16, applied uniformly: a report whose own text shows that part of the construct was not read (an expression the
        # renderer could not resolve, a value the evaluator could not compute, a lambda or a file-local helper standing where
        # a tabulated value is expected) is not positive evidence.  Rules that have read everything they report pass sure=True.
        import re as _re
        if not sure and _re.search(r'\?[A-Z]\w+(?:Expr|Stmt|Operator)\b|\bNone\b|\(anonymous namespace\)::\w+\(|local:__\w+|\S \? \S.* : \S', '%s %s' % (detail or '', instance or '')):
            return self.ob(rule, instance, where, UNDEC, (detail or '') + ' [the report contains a part the rule could not read]', **kw)
        return self.ob(rule, instance, where, VIOL, detail, **kw)

    def undecided(self, rule, instance, where, detail='', **kw):
        return self.ob(rule, instance, where, UNDEC, detail, **kw)

    def minimum(self, label, found, minimum):
        """a rule must match at least `minimum` instances (frozen from the hand count)"""
        self.minimums.append((label, found, minimum))


def norm_root(expr):
    import re as _re
    return _re.sub(r'^(this|arg\d+)(\._parameters)?\.', '*.', expr)


def _div_quot(expr):
    """`div(A,B).quot` / `std::div(A,B).quot` spelled as the division it is: `(A / B)`"""
    out = expr
    for _ in range(8):
        i = out.find('div(')
        if i < 0:
            break
        j = i + 4
        depth, k, comma = 1, j, None
        while k < len(out) and depth:
            ch = out[k]
            depth += ch == '('
            depth -= ch == ')'
            if ch == ',' and depth == 1:
                comma = k
            k += 1
        if depth or comma is None or not out.startswith('.quot', k):
            break
        start = i - 5 if out[max(0, i - 5):i] == 'std::' else i
        out = out[:start] + '(' + out[j:comma].strip() + ' / ' + out[comma + 1:k - 1].strip() + ')' + out[k + 5:]
    return out


def canon_expr(expr):
    """the same site whether its index is a counter, a cast counter or the element of a range-for"""
    import re as _re
    out = _div_quot(_re.sub(r'\((?:unsigned long|unsigned int|size_t|int|long)\)(?=\$v|local:)', '', expr or ''))
    out = out.replace('[front]', '[0]')       # x.front() is x[0]
    out = _re.sub(r'\$v(?:\.(?!operator)\w+)+(?![\w(])', '$v', out)      # a field of a local aggregate is a local value like any other
    m = _re.match(r'^(\d+<-value:)(.*)$', out)
    if m and '|' in m.group(2):
        out = m.group(1) + '|'.join(sorted(m.group(2).split('|')))       # the alternatives of a value, in one order
    return out


def same_value_read(kexpr, oexpr):
    """a finding identified by the mandatory parameter that is read unchecked: the same read with the group name
    coming from a variable (a table of groups walked by a loop) is the same finding"""
    import re as _re
    mk = _re.match(r'^.*\.group\("(\w+)"\)(\.parameter\("\w+"\)\.valuesAs\w+\(\)\[0\])$', kexpr or '')
    mo = _re.match(r'^.*\.group\((.*)\)(\.parameter\("\w+"\)\.valuesAs\w+\(\)\[0\])$', oexpr or '')
    if not mk or not mo or mk.group(2) != mo.group(2):
        return False
    arg = mo.group(1)
    if _re.match(r'^"\w+"$', arg):
        return False          # a literal group: compared exactly elsewhere
    return ('"%s"' % mk.group(1)) in arg


def is_known(o, known):
    """index of the open known finding that observation o is an instance of, else None"""
    for i, k in enumerate(known):
        if k['rule'] == o['rule'] and k['function'] == o['function'] and canon_expr(k['expr']) == canon_expr(o['expr']):
            return i
        if k.get('match') == 'expr-anywhere' and k['rule'] == o['rule'] and (norm_root(k['expr']) == norm_root(o['expr']) or same_value_read(k['expr'], o['expr'])):
            return i
    return None


def load_known():
    p = os.path.join(VERIF, 'known_findings.json')
    if not os.path.exists(p):
        return []
    with open(p) as fh:
        return json.load(fh).get('findings', [])


def finish(res, seed=0):
    """apply known findings, write evidence + reports, print the verdict lines, return exit code"""
    pid = res.pid
    known = [k for k in load_known() if k.get('property') == pid and k.get('status') == 'open']
    used = set()
    viols, undec, knowns = [], [], []
    for o in res.obs:
        if o['verdict'] == VIOL:
            hit = None
            for i, k in enumerate(known):
                if k['rule'] == o['rule'] and k['function'] == o['function'] and canon_expr(k['expr']) == canon_expr(o['expr']):
                    hit = i
                    break
                # a finding identified by the failing input (the value read), wherever the read sits
                if k.get('match') == 'expr-anywhere' and k['rule'] == o['rule'] and (norm_root(k['expr']) == norm_root(o['expr']) or same_value_read(k['expr'], o['expr'])):
                    hit = i
                    break
            if hit is not None:
                o['verdict'] = 'known'
                o['known_id'] = known[hit].get('id')
                used.add(hit)
                knowns.append((o, known[hit]))
            else:
                viols.append(o)
        elif o['verdict'] == UNDEC:
            undec.append(o)
    broken = []
    for label, found, minimum in res.minimums:
        if found < minimum:
            broken.append('%s: matched %d instances, frozen minimum %d' % (label, found, minimum))
    # a listed finding that no longer matches anything is reported as information (the defect
    # may have been repaired); it never makes the check fail
    stale = [known[i] for i in range(len(known)) if i not in used]

    rep_dir = os.path.join(VERIF, 'reports', pid)
    os.makedirs(rep_dir, exist_ok=True)
    for f in os.listdir(rep_dir):
        if f.startswith('violation-') or f.startswith('undecided-'):
            os.unlink(os.path.join(rep_dir, f))
    lines = []
    for o, k in knowns:
        lines.append('KNOWN-FINDING: property=%s %s: %s [%s] at %s (%s)' %
                     (pid, k.get('id', ''), k.get('what', o['detail']), o['rule'], o['where'], o['instance']))
    for i, o in enumerate(viols):
        rp = os.path.join(rep_dir, 'violation-%03d.json' % i)
        with open(rp, 'w') as fh:
            json.dump({'property': pid, **o}, fh, indent=1)
        lines.append('VIOLATION property=%s replay=%s' % (pid, rp))
        lines.append('  rule=%s instance=%s at %s: %s' % (o['rule'], o['instance'], o['where'], o['detail']))
    for i, o in enumerate(undec):
        rp = os.path.join(rep_dir, 'undecided-%03d.json' % i)
        with open(rp, 'w') as fh:
            json.dump({'property': pid, **o}, fh, indent=1)
        lines.append('UNDECIDED property=%s rule=%s instance=%s at %s: %s' %
                     (pid, o['rule'], o['instance'], o['where'], o['detail']))
    for b in broken:
        lines.append('UNDECIDED property=%s analysis-broken: %s' % (pid, b))
    for k in stale:
        lines.append('NOTE property=%s listed finding %s no longer matches any instance' % (pid, k.get('id')))

    n = len(res.obs)
    held = sum(1 for o in res.obs if o['verdict'] == OK)
    distinct = len({(o['rule'], o['function'], o['expr']) for o in res.obs if o['nontrivial']})
    samples = []
    seen_rules = {}
    for o in res.obs:
        c = seen_rules.get(o['rule'], 0)
        if c < 2:
            seen_rules[o['rule']] = c + 1
            samples.append({k: o[k] for k in ('rule', 'instance', 'where', 'verdict', 'detail') if o.get(k) != ''})
    per_rule = {}
    for o in res.obs:
        d = per_rule.setdefault(o['rule'], {'instances': 0, 'ok': 0, 'violation': 0, 'known': 0, 'undecided': 0})
        d['instances'] += 1
        d[o['verdict']] += 1
    ev = {
        'property_id': pid,
        'tier': res.tier,
        'seed': seed,
        'level': 'other',
        'coverage': {
            'explanation': res.explanation,
            'obligations': n,
            'discharged': held,
            'evaluations': max(n, 1),
            'distinct_nontrivial': distinct,
            'rule': 'one obligation per (rule, function, canonical construct) instance found in the '
                    'facts extracted from /repo on this run; non-trivial = the verdict needed more '
                    'than the presence of a declaration (a path, dataflow, table or type argument)',
            'samples': samples[:40],
            'per_rule': per_rule,
            'minimum_instance_counts': [{'rule': l, 'found': f, 'frozen_minimum': m} for l, f, m in res.minimums],
            'known_findings_matched': [k.get('id') for _, k in knowns],
            'not_decided': res.not_decided,
            'exhaustive': False,
            **res.info,
        },
        'assumptions': res.assumptions,
        'wall_s': round(time.time() - res.t0, 3),
        'violations': len(viols),
    }
    os.makedirs(os.path.join(VERIF, 'evidence'), exist_ok=True)
    with open(os.path.join(VERIF, 'evidence', pid + '.json'), 'w') as fh:
        json.dump(ev, fh, indent=1)
    for l in lines:
        print(l)
    print('%s tier=%s obligations=%d held=%d known=%d violations=%d undecided=%d wall=%.2fs' %
          (pid, res.tier, n, held, len(knowns), len(viols), len(undec) + len(broken), time.time() - res.t0))
    if viols:
        return 1
    if undec or broken:
        return 2
    return 0
