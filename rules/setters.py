"""setter-stores: a value setter `void X::m(T)` that is paired with the const getter `X::m() const`
must write (one of) the field(s) the getter reads.  A setter that stores nothing, or stores somewhere the
getter never looks, silently drops an edit.  Pairs are discovered from the code (same qualified name,
const/0 parameters vs non-const/1 parameter/void)."""
import re
import collections
import effects as FX
from paths import Renderer


def pairs(prog, classes):
    byq = collections.defaultdict(list)
    for f in prog.repo_funcs():
        if f.kind == 'method' and f.cls in classes:
            byq[f.qname].append(f)
    out = []
    for q, fs in sorted(byq.items()):
        g = [f for f in fs if f.rec.get('const') and len(f.rec.get('params', [])) == 0]
        s = [f for f in fs if not f.rec.get('const') and len(f.rec.get('params', [])) == 1 and f.rec.get('ret') == 'void']
        if g and s:
            out.append((q, g[0], s[0]))
    return out


def rule(prog, res, classes, rule_name='setter-stores', minimum=None):
    E = FX.get(prog)
    n = 0
    for q, g, s in pairs(prog, classes):
        R = Renderer(g)
        read = set()
        for r in g.all_nodes({'ReturnStmt'}):
            if r.get('ch'):
                read |= set(re.findall(r'this\.(\w+)', R.render(r['ch'][0])))
        inst = '%s(value)' % '::'.join(q.split('::')[-2:])
        if not read:
            continue   # getter computes from something the rule does not read: not a plain value pair
        n += 1
        wrote = {p[0] for r, p, k in E.of(s) if r == 'this' and p}
        # a plain value setter hands the value on as given: arithmetic / a narrowing conversion on the way into the very field
        # the getter returns changes what is read back
        changed = None
        Rs = Renderer(s)
        for nd in s.nodes:
            lhs = rhs = None
            if nd['k'] == 'BinaryOperator' and nd['op'] == '=':
                lhs, rhs = nd['ch'][0], nd['ch'][1]
            elif nd['k'] == 'CXXOperatorCallExpr' and nd.get('op') == '=' and len(nd.get('args', [])) == 2:
                lhs, rhs = nd['args'][0], nd['args'][1]
            if lhs is None:
                continue
            lt = Rs.render(lhs)
            mf = re.match(r'^this\.(\w+)$', lt)
            if not mf or mf.group(1) not in read or len(read) != 1:
                continue
            for x in [rhs] + list(s.descendants(rhs)):
                xn = s.nodes[x]
                if xn['k'] == 'BinaryOperator' and xn.get('op') in ('+', '-', '*', '/', '%') and 'arg0' in Rs.render(x):
                    changed = 'arithmetic (%s)' % Rs.render(x)[:80]
                if xn['k'] in ('CXXStaticCastExpr', 'CStyleCastExpr', 'CXXFunctionalCastExpr', 'ImplicitCastExpr') and xn.get('ck') == 'FloatingToIntegral' and 'arg0' in Rs.render(x):
                    changed = 'a float-to-integer conversion (%s)' % Rs.render(x)[:80]
        if changed and wrote & read:
            res.viol(rule_name, inst, s.loc(), 'the setter stores its argument through %s: the value read back through the getter of the same name is not the value that was set' % changed,
                     function=s.sig, expr='setter:' + q.split('::')[-1], sure=True)
            continue
        if wrote & read:
            res.ok(rule_name, inst, s.loc(), 'stores into %s, which the getter of the same name reads' % sorted(wrote & read), function=s.sig, expr='setter:' + q.split('::')[-1])
        elif not wrote:
            res.viol(rule_name, inst, s.loc(), 'the setter stores nothing: the value handed to %s is dropped (the getter reads %s)' % (q.split('::')[-1], sorted(read)), function=s.sig, expr='setter:' + q.split('::')[-1])
        else:
            res.viol(rule_name, inst, s.loc(), 'the setter writes %s while the getter of the same name reads %s: the value set is not the value read back' % (sorted(wrote), sorted(read)),
                     function=s.sig, expr='setter:' + q.split('::')[-1])
    if minimum is not None:
        res.minimum('getter/setter pairs', n, minimum)
    return n
