"""setter-stores: a value setter `void X::m(T)` that is paired with the const getter `X::m() const`
must write (one of) the field(s) the getter reads.  A setter that stores nothing, or stores somewhere the
getter never looks, silently drops an edit.  Pairs are discovered from the code (same qualified name,
const/0 parameters vs non-const/1 parameter/void)."""
import re
import collections
import effects as FX
from paths import Renderer


def pairs(prog, classes):
    byq = collections.defaultdict(list)
    for f in prog.repo_funcs():
        if f.kind == 'method' and f.cls in classes:
            byq[f.qname].append(f)
    out = []
    for q, fs in sorted(byq.items()):
        g = [f for f in fs if f.rec.get('const') and len(f.rec.get('params', [])) == 0]
        s = [f for f in fs if not f.rec.get('const') and len(f.rec.get('params', [])) == 1 and f.rec.get('ret') == 'void']
        if g and s:
            out.append((q, g[0], s[0]))
    return out


def _slots(f, R):
    """(rendered lvalue, node id) of every direct assignment of the function to state of `this`"""
    out = []
    for nd in f.nodes:
        lhs = None
        if nd['k'] in ('BinaryOperator', 'CompoundAssignOperator') and (nd.get('op') == '=' or nd['k'] == 'CompoundAssignOperator'):
            lhs = nd['ch'][0]
        elif nd['k'] == 'CXXOperatorCallExpr' and nd.get('op') == '=' and len(nd.get('args', [])) == 2:
            lhs = nd['args'][0]
        if lhs is not None:
            lt = R.render(lhs)
            if lt.startswith('this.'):
                out.append((lt, nd['id']))
    return out


def exclusive_rule(prog, res, classes, rule_name):
    """a value setter of a plain value class writes its own component only: writing what a sibling getter returns (directly, or by
    calling the sibling's setter) makes the stored object depend on the order in which the components were set"""
    ps = pairs(prog, classes)
    getter_slot = {}
    for q, g, s in ps:
        R = Renderer(g)
        rets = [R.render(r['ch'][0]) for r in g.all_nodes({'ReturnStmt'}) if r.get('ch')]
        if len(rets) == 1 and re.match(r'^this\.\w+(\[\d+\])?$', rets[0]):
            getter_slot[q] = rets[0]
    setter_usr = {s.usr: q for q, g, s in ps}
    n = 0
    for q, g, s in ps:
        if q not in getter_slot:
            continue
        n += 1
        own = getter_slot[q]
        inst = '%s(value)' % '::'.join(q.split('::')[-2:])
        Rs = Renderer(s)
        bad = []
        for lt, nid in _slots(s, Rs):
            for q2, sl in getter_slot.items():
                if q2 != q and lt == sl and sl != own:
                    bad.append((nid, 'assigns %s, the component %s() returns' % (lt, q2.split('::')[-1])))
        for c in s.calls():
            q2 = setter_usr.get(c['callee'].get('usr'))
            if q2 and q2 != q and c.get('obj') is not None and Rs.render(c['obj']) == 'this' and getter_slot.get(q2) != own:
                bad.append((c['id'], 'calls the setter %s(%s)' % (q2.split('::')[-1], ', '.join(Rs.render(a) for a in s.call_args(c)))))
        if bad:
            res.viol(rule_name, inst + ' exclusive', s.loc(bad[0][0]), 'the setter of %s also %s: setting one component changes another, so the object no longer holds the values it was given' %
                     (q.split('::')[-1], '; '.join(b[1] for b in bad[:3])), function=s.sig, expr='exclusive:' + q.split('::')[-1], sure=True)
        else:
            res.ok(rule_name, inst + ' exclusive', s.loc(), 'writes no component that a sibling getter returns and calls no sibling setter', function=s.sig, expr='exclusive:' + q.split('::')[-1])
    return n


def rule(prog, res, classes, rule_name='setter-stores', minimum=None, exclusive=False):
    E = FX.get(prog)
    n = 0
    if exclusive:
        exclusive_rule(prog, res, classes, rule_name)
    for q, g, s in pairs(prog, classes):
        R = Renderer(g)
        read = set()
        for r in g.all_nodes({'ReturnStmt'}):
            if r.get('ch'):
                read |= set(re.findall(r'this\.(\w+)', R.render(r['ch'][0])))
        inst = '%s(value)' % '::'.join(q.split('::')[-2:])
        if not read:
            continue   # getter computes from something the rule does not read: not a plain value pair
        n += 1
        wrote = {p[0] for r, p, k in E.of(s) if r == 'this' and p}
        # a plain value setter hands the value on as given: arithmetic / a narrowing conversion on the way into the very field
        # the getter returns changes what is read back
        changed = None
        Rs = Renderer(s)
        for nd in s.nodes:
            lhs = rhs = None
            if nd['k'] == 'BinaryOperator' and nd['op'] == '=':
                lhs, rhs = nd['ch'][0], nd['ch'][1]
            elif nd['k'] == 'CXXOperatorCallExpr' and nd.get('op') == '=' and len(nd.get('args', [])) == 2:
                lhs, rhs = nd['args'][0], nd['args'][1]
            if lhs is None:
                continue
            lt = Rs.render(lhs)
            mf = re.match(r'^this\.(\w+)(?:\[\d+\])?$', lt)
            if not mf or mf.group(1) not in read or len(read) != 1:
                continue
            for x in [rhs] + list(s.descendants(rhs)):
                xn = s.nodes[x]
                if xn['k'] == 'BinaryOperator' and xn.get('op') in ('+', '-', '*', '/', '%') and 'arg0' in Rs.render(x):
                    changed = 'arithmetic (%s)' % Rs.render(x)[:80]
                if xn['k'] in ('CXXStaticCastExpr', 'CStyleCastExpr', 'CXXFunctionalCastExpr', 'ImplicitCastExpr') and xn.get('ck') == 'FloatingToIntegral' and 'arg0' in Rs.render(x):
                    changed = 'a float-to-integer conversion (%s)' % Rs.render(x)[:80]
                if xn['k'] == 'ConditionalOperator' and 'arg0' in Rs.render(xn['cond']) and any('cv' in s.nodes[s.strip(b_, 'all')] or s.nodes[s.strip(b_, 'all')]['k'] in ('FloatingLiteral', 'IntegerLiteral', 'UnaryOperator')
                                                                                               for b_ in (xn['lhs'], xn['rhs'])):
                    changed = 'a replacement of some values by a constant (%s)' % Rs.render(x)[:80]
        if changed and wrote & read:
            res.viol(rule_name, inst, s.loc(), 'the setter stores its argument through %s: the value read back through the getter of the same name is not the value that was set' % changed,
                     function=s.sig, expr='setter:' + q.split('::')[-1], sure=True)
            continue
        rets = [R.render(r['ch'][0]) for r in g.all_nodes({'ReturnStmt'}) if r.get('ch')]
        if wrote & read and len(rets) == 1 and re.match(r'^this\.\w+\[\d+\]$', rets[0]):
            fld = rets[0].split('[')[0]
            mine = [lt for lt, _n in _slots(s, Rs) if lt.split('[')[0] == fld]
            if mine and all(re.match(r'^this\.\w+\[\d+\]$', lt) for lt in mine) and rets[0] not in mine:
                res.viol(rule_name, inst, s.loc(), 'the setter stores into %s while the getter of the same name reads %s: the value set is not the value read back' % (sorted(set(mine)), rets[0]),
                         function=s.sig, expr='setter:' + q.split('::')[-1], sure=True)
                continue
        if wrote & read:
            res.ok(rule_name, inst, s.loc(), 'stores into %s, which the getter of the same name reads' % sorted(wrote & read), function=s.sig, expr='setter:' + q.split('::')[-1])
        elif not wrote:
            res.viol(rule_name, inst, s.loc(), 'the setter stores nothing: the value handed to %s is dropped (the getter reads %s)' % (q.split('::')[-1], sorted(read)), function=s.sig, expr='setter:' + q.split('::')[-1])
        else:
            res.viol(rule_name, inst, s.loc(), 'the setter writes %s while the getter of the same name reads %s: the value set is not the value read back' % (sorted(wrote), sorted(read)),
                     function=s.sig, expr='setter:' + q.split('::')[-1])
    if minimum is not None:
        res.minimum('getter/setter pairs', n, minimum)
    return n
