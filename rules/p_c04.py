"""C04 — load -> save -> load preserves content (partial claim)."""
from result import Result
import codec_rules as CR


def run(prog, tier):
    res = Result('C04', tier,
                 'Re-emission completeness: every member a reader assigns is emitted by the matching writer (or is canonicalised on save as listed); '
                 'CHAR cells are written at exactly the declared width dimension[0] in both the 1-D and the matrix branch; BYTE payload is written with '
                 'the width of its type; group id <-> position are inverse (placeholders for unused ids are skipped on save, ids unchanged); the '
                 'reader and writer record grammars agree (same rules as C01).',
                 assumptions=['spec/c3d_layout.json transcribes the C3D layout correctly'],
                 not_decided=['equality of the reloaded values', 'three-generation byte identity (C14 decides purity/determinism of save)'])
    CR.reemission_rule(prog, res)
    CR.parameters_writer_rule(prog, res, 'id-position/parameters-write')
    CR.parameters_reader_rule(prog, res, 'id-position/parameters-read')
    CR.parameter_writer_rule(prog, res, 'cell-width/parameter-write')
    CR.parameter_reader_rule(prog, res, 'cell-width/parameter-read')
    CR.group_writer_rule(prog, res, 'record/group-write')
    CR.group_reader_rule(prog, res, 'record/group-read')
    CR.header_writer_rule(prog, res, 'carry-through/header-write', int_scale_ok=True)
    CR.header_reader_rule(prog, res, 'carry-through/header-read', int_scale_ok=True)
    CR.frame_writer_rule(prog, res, 'carry-through/frame-write')
    CR.frame_reader_rule(prog, res, 'carry-through/frame-read')
    CR.copy_completeness_rule(prog, res)
    # strings are stored trimmed: the trimmer must empty a cell made only of padding
    import p_c11
    p_c11.check_trimmer(prog, res, 'string-trim')
    # a CHAR cell is dimension[0] bytes wide: the setter must declare the longest stored string
    import p_c09
    p_c09.longest_string_rule(prog, res, 'cell-width/declared')
    return res
