"""A6 — I/O sequence extraction.  For a writer (takes the output stream) or a reader (takes the
c3d& file) the ordered, symbolic tree of fields it emits / consumes:

  ('io',   {...})                      one write / read call
  ('loop', rep_poly, var, [items])     counted loop in normal form
  ('alt',  cond_render, [then], [else])
  ('call', callee Func, subst, [items]) spliced callee sequence (items already substituted)
  ('slot', kind, ...)                  tellg / seekg bookkeeping
  ('rec',  callee)                     recursive call (handled by the recursion-scheme rule)
  ('other', node)                      statement with no I/O

Nothing here is specific to a section; the rules compare these trees with spec/c3d_layout.json."""
import re
from facts import CALL_KINDS, AnalysisBroken
from paths import Renderer, root_of, local_init
from loops import normal_for
import poly as P

STREAM_T = ('std::basic_fstream<char> &', 'std::basic_ostream<char> &', 'std::basic_ofstream<char> &')
READERS = {'readInt': 's', 'readUint': 'u', 'readFloat': 'f', 'readString': 'c'}


def substitute(s, subst):
    """replace whole tokens argN / this in a canonical rendering"""
    if not subst:
        return s

    def rep(m):
        return subst.get(m.group(0), m.group(0))
    sc = subst.get('#scope')
    if sc:
        s = re.sub(r'\blocal:(\w+)(?![\w@])', lambda m: 'local:%s@%s' % (m.group(1), sc), s)
    return re.sub(r'\bthis\b|\barg\d+\b', rep, s)


def subst_poly(p, subst):
    if not subst:
        return p
    out = {}
    for m, c in p.items():
        atoms = []
        for a in m:
            a2 = substitute(a, subst)
            a3 = re.sub(r'^\((?:unsigned |signed )?\w[\w ]*\)(?=-?\d+$)', '', a2)
            if re.match(r'^-?\d+$', a3):
                c = c * int(a3)      # an argument that is a constant at this call site
            else:
                atoms.append(a2)
        m2 = tuple(sorted(atoms))
        out[m2] = out.get(m2, 0) + c
    return {k: v for k, v in out.items() if v}


class Extractor:
    def __init__(self, prog, mode):
        self.prog = prog
        self.mode = mode      # 'w' or 'r'
        self.stack = []

    # -- which parameter carries the medium --------------------------------------------------
    def medium_param(self, f):
        for i, p in enumerate(f.params):
            if self.mode == 'w' and p['type'] in STREAM_T:
                return i
            if self.mode == 'r' and p['type'] == 'ezc3d::c3d &':
                return i
        return None

    def is_medium(self, f, i):
        """expression i designates the medium (stream parameter / c3d& parameter / *this in c3d)"""
        m = f.nodes[f.strip(i, 'all')]
        mp = self.medium_param(f)
        if m['k'] == 'DeclRefExpr' and m['decl'].get('dk') == 'param' and mp is not None and m['decl'].get('id') == f.params[mp]['id']:
            return True
        if self.mode == 'r' and f.cls == 'ezc3d::c3d' and m['k'] == 'CXXThisExpr':
            return True
        if self.mode == 'r' and f.cls == 'ezc3d::c3d' and m['k'] == 'UnaryOperator' and m['op'] == '*' and f.nodes[f.strip(m['ch'][0], 'all')]['k'] == 'CXXThisExpr':
            return True
        return False

    def involves_medium(self, f, n):
        obj = f.call_obj(n)
        if obj is not None and self.is_medium(f, obj):
            return True
        return any(self.is_medium(f, a) for a in f.call_args(n))

    # -- statements ----------------------------------------------------------------------------
    def seq_of(self, f, subst=None, depth=0):
        if f.usr in self.stack or depth > 12:
            return [('rec', f)]
        self.stack.append(f.usr)
        try:
            R = Renderer(f)
            items = []
            if f.kind == 'ctor':
                for init in f.rec.get('inits', []):
                    items.extend(self.expr_items(f, R, init['expr'], subst, depth, dest=('this.%s' % init.get('field')) if init.get('field') else None))
            items.extend(self.stmt(f, R, f.body, subst, depth))
            return items
        finally:
            self.stack.pop()

    def switch_alts(self, f, R, n, subst, depth):
        """switch (X) { case a: S1; break; case b: case c: S2; break; default: S3; }  as the chain
        of alternatives  (X == a) ? S1 : ((X == b) || (X == c)) ? S2 : S3  (no fall-through between
        non-empty groups; every group ends in break / return / throw)"""
        kids = [c for c in n['ch']]
        body = None
        cond = None
        for c in kids:
            if f.nodes[c]['k'] == 'CompoundStmt':
                body = f.nodes[c]
            elif cond is None and f.nodes[c]['k'] not in ('DeclStmt',):
                cond = c
        if body is None or cond is None:
            return None
        X = R.render(cond)
        groups = []       # (labels or None for default, [stmt ids])
        cur = None

        def open_labels(i, labels):
            m = f.nodes[i]
            while m['k'] in ('CaseStmt', 'DefaultStmt'):
                if m['k'] == 'CaseStmt':
                    cv = f.nodes[f.strip(m['ch'][0], 'all')].get('cv')
                    if cv is None:
                        return None, None
                    labels.append(cv)
                    sub = m['ch'][-1]
                else:
                    labels.append(None)
                    sub = m['ch'][-1] if m['ch'] else None
                if sub is None:
                    return labels, None
                i = sub
                m = f.nodes[i]
            return labels, i
        for c in body['ch']:
            m = f.nodes[c]
            if m['k'] in ('CaseStmt', 'DefaultStmt'):
                def ends_group(i):
                    m_ = f.nodes[i]
                    if m_['k'] == 'BreakStmt' or self.terminates(f, i):
                        return True
                    return m_['k'] == 'CompoundStmt' and bool(m_['ch']) and ends_group(m_['ch'][-1])
                if cur is not None and cur[1] and not ends_group(cur[1][-1]):
                    return None      # fall-through out of a non-empty group
                labels, first = open_labels(c, [])
                if labels is None:
                    return None
                cur = (labels, [first] if first is not None else [])
                groups.append(cur)
            elif cur is None:
                return None
            else:
                cur[1].append(c)
        out_default = []
        chain = []
        for labels, stmts in groups:
            items = []
            for st in stmts:
                if f.nodes[st]['k'] == 'BreakStmt':
                    break
                items.extend(self.stmt(f, R, st, subst, depth))
            if None in labels:
                out_default = items
                labels = [l for l in labels if l is not None]
            if labels:
                chain.append((' || '.join('(%s == %s)' % (X, l) for l in labels) if len(labels) > 1 else '(%s == %s)' % (X, labels[0]), items))
        if len(chain) > 1 or (chain and '||' in chain[0][0]):
            chain = [('(%s)' % c if '||' in c else c, it) for c, it in chain]
        res_ = out_default
        for c, items in reversed(chain):
            if not items and not res_:
                continue
            res_ = [('alt', substitute(c, subst), items, res_, n['id'], f)]
        return res_

    def terminates(self, f, i):
        """statement i never completes normally (ends in return / throw on every path)"""
        n = f.nodes[i]
        k = n['k']
        if k == 'ReturnStmt':
            return True
        if k in ('ExprWithCleanups',) and n['ch']:
            return self.terminates(f, n['ch'][0])
        if k == 'CXXThrowExpr':
            return True
        if k == 'SwitchStmt':
            return False
        if k == 'CompoundStmt':
            return bool(n['ch']) and self.terminates(f, n['ch'][-1])
        if k == 'IfStmt':
            return 'else' in n and self.terminates(f, n['then']) and self.terminates(f, n['else'])
        return False

    def only_continue(self, f, i):
        n = f.nodes[i]
        if n['k'] == 'ContinueStmt':
            return True
        return n['k'] == 'CompoundStmt' and len(n['ch']) == 1 and f.nodes[n['ch'][0]]['k'] == 'ContinueStmt'

    def stmt(self, f, R, i, subst, depth):
        n = f.nodes[i]
        k = n['k']
        if k == 'CompoundStmt':
            out = []
            for j, c in enumerate(n['ch']):
                m = f.nodes[c]
                # `if (c) { I/O ...; return; }  rest`  is  `if (c) { I/O } else { rest }`
                if m['k'] == 'IfStmt' and 'else' not in m and self.terminates(f, m['then']):
                    th = self.stmt(f, R, m['then'], subst, depth)
                    if th:
                        rest = []
                        for c2 in n['ch'][j + 1:]:
                            rest.extend(self.stmt(f, R, c2, subst, depth))
                        out.extend(self.expr_items(f, R, m['cond'], subst, depth))
                        out.append(('alt', substitute(R.render(m['cond']), subst), th, rest, m['id'], f))
                        return out
                # inside a loop body:  `if (c) continue;  rest`  is  `if (!c) { rest }`
                if m['k'] == 'IfStmt' and 'else' not in m and self.only_continue(f, m['then']):
                    rest = []
                    for c2 in n['ch'][j + 1:]:
                        rest.extend(self.stmt(f, R, c2, subst, depth))
                    out.extend(self.expr_items(f, R, m['cond'], subst, depth))
                    if rest:
                        out.append(('alt', substitute(R.render(m['cond']), subst), [], rest, m['id'], f))
                    return out
                out.extend(self.stmt(f, R, c, subst, depth))
            return out
        if k == 'IfStmt':
            cond_items = self.expr_items(f, R, n['cond'], subst, depth)
            th = self.stmt(f, R, n['then'], subst, depth)
            el = self.stmt(f, R, n['else'], subst, depth) if 'else' in n else []
            if not th and not el:
                return cond_items
            # `if (!buf.empty()) write(buf)`: with an empty buffer the expanded appends run zero times anyway
            cr = R.render(n['cond'])
            gm = re.match(r'^\(?!\(?local:(\w+)\.empty(?:\(\))?\)?\)?$|^\(?local:(\w+)\.size(?:\(\))? (?:>|!=) 0\)?$', cr)
            if gm and not el and th:
                nm = gm.group(1) or gm.group(2)

                def all_gathered(items):
                    for it in items:
                        if it[0] == 'io':
                            if it[1].get('gathered') != nm:
                                return False
                        elif it[0] == 'loop':
                            if not all_gathered(it[3]):
                                return False
                        elif it[0] == 'alt':
                            if not all_gathered(it[2]) or not all_gathered(it[3]):
                                return False
                        else:
                            return False
                    return True
                if all_gathered(th):
                    return cond_items + th
            return cond_items + [('alt', substitute(R.render(n['cond']), subst), th, el, n['id'], f)]
        if k == 'ForStmt':
            body = self.stmt(f, R, n['body'], subst, depth)
            hdr = []
            for key in ('init', 'cond', 'inc'):
                if key in n:
                    hdr.extend(self.expr_items(f, R, n[key], subst, depth))
            if not body and not hdr:
                return []
            lf = normal_for(f, i)
            if lf is None:
                from loops import iterator_for
                il = iterator_for(f, i, R)
                if il:
                    return [('loop', {(substitute(il['range'], subst) + '.size',): 1}, il['name'], body, n['id'], f)]
            if lf is not None and lf['op'] == '<=':
                # for (i = a; i <= b; ++i): b - a + 1 iterations (for b >= a)
                rep = P.add(P.add(P.poly(f, lf['bound'], R), P.poly(f, lf['start'], R), -1), P.const(1))
                return [('loop', subst_poly(rep, subst), lf['name'], hdr + body, n['id'], f)]
            if lf is None or lf['op'] != '<':
                return [('loop', None, None, hdr + body, n['id'], f)]
            rep = P.add(P.poly(f, lf['bound'], R), P.poly(f, lf['start'], R), -1)
            return [('loop', subst_poly(rep, subst), lf['name'], hdr + body, n['id'], f)]
        if k == 'CXXForRangeStmt':
            body = self.stmt(f, R, n['body'], subst, depth)
            if not body:
                return []
            rep = {(substitute(R.render(n['range']), subst) + '.size',): 1} if 'range' in n else None
            return [('loop', rep, (n.get('loopvar') or {}).get('name'), body, n['id'], f)]
        if k == 'SwitchStmt':
            sw = self.switch_alts(f, R, n, subst, depth)
            if sw is not None:
                return sw
            inner = []
            for c in n['ch']:
                inner.extend(self.stmt(f, R, c, subst, depth))
            return [('loop', None, None, inner, n['id'], f)] if inner else []
        if k in ('WhileStmt', 'DoStmt'):
            body = self.stmt(f, R, n['body'], subst, depth)
            cond = self.expr_items(f, R, n['cond'], subst, depth)
            if not body and not cond:
                return []
            return [('loop', None, None, cond + body, n['id'], f)]
        if k == 'CXXTryStmt':
            out = self.stmt(f, R, n['body'], subst, depth)
            return out
        if k == 'DeclStmt':
            out = []
            for d in n['decls']:
                if 'init' in d:
                    out.extend(self.expr_items(f, R, d['init'], subst, depth, dest=substitute('local:%s' % d['name'], subst), destdecl=d))
            return out
        if k == 'ReturnStmt':
            out = []
            for c in n['ch']:
                out.extend(self.expr_items(f, R, c, subst, depth, dest='return'))
            return out
        # expression statement
        return self.expr_items(f, R, i, subst, depth)

    def expr_items(self, f, R, i, subst, depth, dest=None, destdecl=None):
        """I/O performed while evaluating expression i, in evaluation order (post-order over calls)"""
        out = []
        n = f.nodes[i]
        k = n['k']
        # assignment: evaluate rhs with dest = lhs
        if k == 'BinaryOperator' and n['op'] == '=':
            out.extend(self.expr_items(f, R, n['ch'][1], subst, depth, dest=substitute(R.render(n['ch'][0]), subst)))
            return out
        if k == 'CXXOperatorCallExpr' and n.get('op') == '=' and len(n.get('args', [])) == 2:
            out.extend(self.expr_items(f, R, n['args'][1], subst, depth, dest=substitute(R.render(n['args'][0]), subst)))
            return out
        if k == 'LambdaExpr':
            return out      # defining a lambda performs no I/O; its body counts where it is called
        if k == 'CXXOperatorCallExpr' and n.get('op') == '()' and n.get('args'):
            # a call of a local lambda  `auto readWord = [&]{ return file.readUint(2); };  x = readWord();`
            o_ = f.nodes[f.strip(n['args'][0], 'all')]
            if o_['k'] == 'DeclRefExpr' and o_['decl'].get('dk') == 'local':
                ini = local_init(f, o_['decl']['id'])
                lam = None
                if ini is not None:
                    for x in [ini] + list(f.descendants(ini)):
                        if f.nodes[x]['k'] == 'LambdaExpr':
                            lam = f.nodes[x]
                            break
                if lam is not None:
                    for a_ in n['args'][1:]:
                        out.extend(self.expr_items(f, R, a_, subst, depth))
                    body = [x for x in lam['ch'] if f.nodes[x]['k'] == 'CompoundStmt']
                    st = [f.nodes[x] for x in f.nodes[body[0]]['ch']] if body else []
                    if len(st) == 1 and st[0]['k'] == 'ReturnStmt' and st[0]['ch'] and not lam.get('lparams'):
                        inner = self.expr_items(f, R, st[0]['ch'][0], subst, depth, dest=dest, destdecl=destdecl)
                        # what is done with the lambda's result at the call site happens to the value it read
                        extra = self.post_transform(f, R, n['id'])
                        if extra:
                            for it_ in inner:
                                if it_[0] == 'io' and 'post' in it_[1]:
                                    it_[1]['post'] = list(it_[1]['post'] or []) + extra
                        out.extend(inner)
                        return out
                    inner = self.stmt(f, R, body[0], subst, depth) if body else []
                    if inner:
                        out.append(('loop', None, None, inner, n['id'], f))      # a lambda the extractor does not inline: unknown shape
                    return out
        if k == 'ConditionalOperator':
            c = self.expr_items(f, R, n['cond'], subst, depth)
            a = self.expr_items(f, R, n['lhs'], subst, depth, dest)
            b = self.expr_items(f, R, n['rhs'], subst, depth, dest)
            if a or b:
                return c + [('alt', substitute(R.render(n['cond']), subst), a, b, n['id'], f)]
            return c
        if k == 'CallExpr' and n.get('callee', {}).get('qname') == 'std::generate_n' and len(f.call_args(n)) == 3:
            # std::generate_n(std::back_inserter(X), N, []{ return <expr>; }): N times X.push_back(<expr>)
            a = f.call_args(n)
            d0 = f.nodes[f.strip(a[0], 'all')]
            lam = f.nodes[f.strip(a[2], 'all')]
            if d0['k'] == 'CallExpr' and d0.get('callee', {}).get('qname') == 'std::back_inserter' and d0.get('args') and lam['k'] == 'LambdaExpr':
                body = [x for x in lam['ch'] if f.nodes[x]['k'] == 'CompoundStmt']
                st = [f.nodes[x] for x in f.nodes[body[0]]['ch']] if body else []
                if len(st) == 1 and st[0]['k'] == 'ReturnStmt' and st[0]['ch']:
                    dest_ = substitute(R.render(d0['args'][0]), subst) + '[+]'
                    inner = self.expr_items(f, R, st[0]['ch'][0], subst, depth, dest=dest_)
                    if inner:
                        return out + [('loop', subst_poly(P.poly(f, a[1], R), subst), None, inner, n['id'], f)]
                    return out
        if k == 'CallExpr' and n.get('callee', {}).get('qname') == 'std::generate' and len(f.call_args(n)) == 3:
            # std::generate(X.begin(), X.end(), []{ return <expr>; }): X[i] = <expr> for i in [0, X.size)
            a = f.call_args(n)
            b0, e0 = f.nodes[f.strip(a[0], 'all')], f.nodes[f.strip(a[1], 'all')]
            lam = f.nodes[f.strip(a[2], 'all')]
            if lam['k'] != 'LambdaExpr':
                for x in f.descendants(a[2]):
                    if f.nodes[x]['k'] == 'LambdaExpr':
                        lam = f.nodes[x]
                        break
            if b0['k'] == 'CXXMemberCallExpr' and b0['callee']['name'] in ('begin',) and e0['k'] == 'CXXMemberCallExpr' and e0['callee']['name'] in ('end',) and \
                    b0.get('obj') is not None and e0.get('obj') is not None and R.render(b0['obj']) == R.render(e0['obj']) and lam['k'] == 'LambdaExpr':
                body = [x for x in lam['ch'] if f.nodes[x]['k'] == 'CompoundStmt']
                st = [f.nodes[x] for x in f.nodes[body[0]]['ch']] if body else []
                if len(st) == 1 and st[0]['k'] == 'ReturnStmt' and st[0]['ch']:
                    X = substitute(R.render(b0['obj']), subst)
                    var = 'g%d' % n['id']
                    inner = self.expr_items(f, R, st[0]['ch'][0], subst, depth, dest='%s[local:%s]' % (X, var))
                    if inner:
                        return out + [('loop', {(X + '.size',): 1}, var, inner, n['id'], f)]
                    return out
        if k == 'CallExpr' and n.get('callee', {}).get('qname') == 'std::for_each':
            from paths import lambda_params
            lp = [v for v in lambda_params(f).values() if v[2] == n['id']]
            if len(lp) == 1:
                body = self.stmt(f, R, lp[0][4], subst, depth)
                if not body:
                    return out
                rep = subst_poly(P.poly(f, lp[0][7], R), subst) if lp[0][7] is not None else {(substitute(R.render(lp[0][0]), subst) + '.size',): 1}
                return out + [('loop', rep, lp[0][1], body, n['id'], f)]
        if k in CALL_KINDS and 'callee' in n:
            c = n['callee']
            obj = f.call_obj(n)
            args = f.call_args(n) if k not in ('CXXConstructExpr', 'CXXTemporaryObjectExpr') else n.get('args', [])
            item = self.io_item(f, R, n, subst, dest)
            if item is not None:
                # arguments first (they may contain reads, e.g. readInt(...) as an argument)
                for a in args:
                    out.extend(self.expr_items(f, R, a, subst, depth))
                if item[0] == 'io' and item[1].get('k') == 'write' and item[1].get('srck') == 'other' and getattr(self, '_gather', None) is None:
                    ve = self.vector_elements(f, R, n, subst, item[1])
                    if ve is not None:
                        out.extend(ve)
                        return out
                    ga = self.gather_analysis(f, R, n, subst, depth)
                    if ga is not None:
                        item[1]['gather'] = {k: v for k, v in ga.items() if k != 'tree'}
                        if ga['verdict'] == 'exact':
                            out.extend(ga['tree'])
                            return out
                out.append(item)
                return out
            # push_back(readX(..)) / setter(readX(..)): destination is the callee's object
            subdest = dest
            if obj is not None and c['name'] == 'assign' and c.get('classq', '').startswith('std::'):
                subdest = substitute(R.render(obj), subst)
            elif obj is not None and c['name'] in ('push_back', 'emplace_back') and c.get('classq', '').startswith('std::'):
                subdest = substitute(R.render(obj), subst) + '[+]'
            elif obj is not None and c.get('inrepo') and len(args) == 1 and not c.get('const'):
                subdest = substitute(R.render(obj), subst) + '.' + c['name'] + '()'
            if obj is not None:
                out.extend(self.expr_items(f, R, obj, subst, depth))
            for a in args:
                out.extend(self.expr_items(f, R, a, subst, depth, subdest if len(args) == 1 else None))
            cf = self.prog.funcs.get(c['usr'])
            if cf is not None and getattr(self, '_gather', None) is None and (self.involves_medium(f, n) or self.callee_touches_medium(cf)):
                if not self.involves_medium(f, n):
                    return out
                sub = {}
                if obj is not None:
                    sub['this'] = substitute(R.render(obj), subst)
                elif k in ('CXXConstructExpr', 'CXXTemporaryObjectExpr'):
                    sub['this'] = dest or 'temp'
                for idx, a in enumerate(args):
                    sub['arg%d' % idx] = substitute(R.render(a), subst)
                self.nscope = getattr(self, 'nscope', 0) + 1
                sub['#scope'] = str(self.nscope)
                inner = self.seq_of(cf, sub, depth + 1)
                if dest and cf.body is not None:
                    # a helper that opens a slot (tell) and hands the position back: the slot is known to the caller under the
                    # name of the variable that receives the result
                    rl = set()
                    for r_ in cf.all_nodes({'ReturnStmt'}):
                        if r_.get('ch'):
                            rn = cf.nodes[cf.strip(r_['ch'][0], 'all')]
                            rl.add('local:%s@%s' % (rn['decl'].get('name'), sub['#scope']) if rn['k'] == 'DeclRefExpr' and rn['decl'].get('dk') == 'local' else None)
                    if len(rl) == 1 and None not in rl:
                        old_name = list(rl)[0]

                        def ren(items):
                            o2 = []
                            for it in items:
                                if it[0] == 'slot' and it[1] == 'tell' and it[2] == old_name:
                                    it = ('slot', 'tell', dest) + tuple(it[3:])
                                elif it[0] in ('loop', 'call'):
                                    it = tuple(it[:3]) + (ren(it[3]),) + tuple(it[4:])
                                elif it[0] == 'alt':
                                    it = tuple(it[:2]) + (ren(it[2]), ren(it[3])) + tuple(it[4:])
                                o2.append(it)
                            return o2
                        inner = ren(inner)
                out.append(('call', cf, sub, inner, n['id'], f))
            return out
        # descend generically (keeps order of children)
        for c in n['ch']:
            out.extend(self.expr_items(f, R, c, subst, depth, dest if k in ('ImplicitCastExpr', 'CXXStaticCastExpr', 'CStyleCastExpr', 'CXXFunctionalCastExpr',
                                                                      'ParenExpr', 'ExprWithCleanups', 'MaterializeTemporaryExpr',
                                                                      'CXXBindTemporaryExpr', 'BinaryOperator', 'CXXConstructExpr') else None))
        return out

    ELEM = {'float': (4, 'f', 32), 'double': (8, 'f', 64), 'char': (1, 's', 8), 'unsigned char': (1, 'u', 8), 'short': (2, 's', 16), 'unsigned short': (2, 'u', 16),
            'int': (4, 's', 32), 'unsigned int': (4, 'u', 32), 'int16_t': (2, 's', 16), 'uint16_t': (2, 'u', 16), 'int32_t': (4, 's', 32), 'uint32_t': (4, 'u', 32)}

    def gather_local(self, f, ptr):
        """ptr is v.data() / &v[0] / &v.front() of a local std::vector<scalar> v that is default-constructed
        and only ever appended to (push_back / emplace_back / reserve / size / empty / capacity / data):
        -> (decl, (elem size, tc, tw)) else None"""
        m = f.nodes[f.strip(ptr, 'all')]
        obj = None
        if m['k'] == 'CXXMemberCallExpr' and m['callee']['name'] == 'data' and m['callee'].get('classq', '').startswith('std::vector'):
            obj = m.get('obj')
        elif m['k'] == 'UnaryOperator' and m['op'] == '&':
            e = f.nodes[f.strip(m['ch'][0], 'all')]
            if e['k'] == 'CXXOperatorCallExpr' and e.get('op') == '[]' and f.nodes[f.strip(e['args'][1], 'all')].get('cv') == '0':
                obj = e['args'][0]
            elif e['k'] == 'CXXMemberCallExpr' and e['callee']['name'] == 'front':
                obj = e.get('obj')
        if obj is None:
            return None
        o = f.nodes[f.strip(obj, 'all')]
        if o['k'] != 'DeclRefExpr' or o['decl'].get('dk') != 'local' or o['decl'].get('isref'):
            return None
        d = o['decl']
        tm = re.match(r'^std::vector<([\w ]+)>$', d.get('type', ''))
        if not tm or tm.group(1) not in self.ELEM:
            return None
        init = local_init(f, d['id'])
        if init is not None:
            c = f.nodes[f.strip(init, 'noop')]
            if c['k'] not in ('CXXConstructExpr', 'CXXTemporaryObjectExpr') or c.get('args'):
                return None
        for x in f.all_nodes({'DeclRefExpr'}):
            if x['decl'].get('id') != d['id'] or x['decl'].get('dk') != 'local':
                continue
            ok = False
            for p_ in f.ancestors(x['id']):
                pn = f.nodes[p_]
                if pn['k'] in ('ImplicitCastExpr', 'ParenExpr'):
                    continue
                if pn['k'] == 'MemberExpr':
                    continue
                if pn['k'] == 'CXXMemberCallExpr' and pn['callee']['name'] in ('push_back', 'emplace_back', 'reserve', 'size', 'empty', 'capacity', 'data', 'front') and \
                        f.strip(pn.get('obj', -1), 'all') == x['id']:
                    ok = True
                elif pn['k'] == 'CXXOperatorCallExpr' and pn.get('op') == '[]' and f.strip(pn['args'][0], 'all') == x['id'] and \
                        f.nodes[f.strip(pn['args'][1], 'all')].get('cv') == '0':
                    ok = True
                break
            if not ok:
                return None
        return d, self.ELEM[tm.group(1)]

    def vector_elements(self, f, R, n, subst, it):
        """write(X.data() | &X[0], K * sizeof(elem)) with a constant K <= 64 on a std::vector<scalar> X
        that is not a local gather buffer: K element-sized writes of X[0] .. X[K-1]"""
        args = f.call_args(n)
        m = f.nodes[f.strip(args[0], 'all')]
        hops = 0
        while m['k'] == 'DeclRefExpr' and m['decl'].get('dk') == 'local' and m['decl'].get('tc') == 'p' and hops < 3 and local_init(f, m['decl']['id']) is not None and \
                m['decl']['id'] in R.single_def_locals():
            m = f.nodes[f.strip(local_init(f, m['decl']['id']), 'all')]
            hops += 1
        obj = None
        if m['k'] == 'CXXMemberCallExpr' and m['callee']['name'] == 'data' and m['callee'].get('classq', '').startswith('std::vector'):
            obj = m.get('obj')
        elif m['k'] == 'UnaryOperator' and m['op'] == '&':
            e = f.nodes[f.strip(m['ch'][0], 'all')]
            if e['k'] == 'CXXOperatorCallExpr' and e.get('op') == '[]' and f.nodes[f.strip(e['args'][1], 'all')].get('cv') == '0':
                obj = e['args'][0]
        if obj is None:
            return None
        o = f.nodes[f.strip(obj, 'noop')]
        tm = re.match(r'^(?:const )?std::vector<([\w ]+)>$', o.get('t', ''))
        if not tm or tm.group(1) not in self.ELEM:
            return None
        kind, _ = root_of(f, obj)
        if kind not in ('this', 'param'):
            return None
        esz, tc, tw = self.ELEM[tm.group(1)]
        w = it.get('width')
        if w is None or not (set(w.keys()) <= {()}):
            return None
        tot = w.get((), 0)
        if tot <= 0 or tot % esz or tot // esz > 64:
            return None
        base = substitute(R.render(obj), subst)
        out = []
        for kk in range(tot // esz):
            out.append(('io', {'k': 'write', 'node': n['id'], 'fn': f, 'where': f.loc(n['id']), 'srck': 'object', 'src': '%s[%d]' % (base, kk), 'src_tc': tc, 'src_tw': tw,
                               'src_node': obj, 'width': P.const(esz), 'width_alts': [P.const(esz)], 'from_vector': (base, tot // esz)}))
        return out

    def range_copy(self, f, R, ptr):
        """ptr is v.data() / &v[0] of a local std::vector<scalar> v constructed from the iterator range
        [X.begin(), X.begin() + N) or [X.begin(), X.end()) and never modified afterwards:
        -> (decl, elem size, poly of N, rendering of X) else None"""
        m = f.nodes[f.strip(ptr, 'all')]
        obj = None
        if m['k'] == 'CXXMemberCallExpr' and m['callee']['name'] == 'data' and m['callee'].get('classq', '').startswith('std::vector'):
            obj = m.get('obj')
        elif m['k'] == 'UnaryOperator' and m['op'] == '&':
            e = f.nodes[f.strip(m['ch'][0], 'all')]
            if e['k'] == 'CXXOperatorCallExpr' and e.get('op') == '[]' and f.nodes[f.strip(e['args'][1], 'all')].get('cv') == '0':
                obj = e['args'][0]
        if obj is None:
            return None
        o = f.nodes[f.strip(obj, 'all')]
        if o['k'] != 'DeclRefExpr' or o['decl'].get('dk') != 'local' or o['decl'].get('isref'):
            return None
        d = o['decl']
        tm = re.match(r'^(?:const )?std::vector<([\w ]+)>$', d.get('type', ''))
        if not tm or tm.group(1) not in self.ELEM:
            return None
        init = local_init(f, d['id'])
        if init is None:
            return None
        # never modified after its construction: only read-only members are called on it
        for x in f.nodes:
            if x['k'] == 'DeclRefExpr' and x['decl'].get('id') == d['id'] and x['decl'].get('dk') == 'local':
                okuse = False
                for p_ in f.ancestors(x['id']):
                    pn = f.nodes[p_]
                    if pn['k'] in ('ImplicitCastExpr', 'ParenExpr', 'MemberExpr'):
                        continue
                    if pn['k'] == 'CXXMemberCallExpr' and pn['callee']['name'] in ('data', 'size', 'empty', 'begin', 'end', 'cbegin', 'cend', 'front', 'back', 'at', 'capacity') and \
                            f.strip(pn.get('obj', -1), 'all') == x['id']:
                        okuse = True
                    elif pn['k'] == 'CXXOperatorCallExpr' and pn.get('op') == '[]' and f.strip(pn['args'][0], 'all') == x['id']:
                        par2 = f.nodes[pn['p']] if 'p' in pn else None
                        okuse = not (par2 is not None and par2['k'] in ('BinaryOperator', 'CompoundAssignOperator') and par2.get('op', '=').endswith('=') and par2['ch'][0] == pn['id'])
                    break
                if not okuse:
                    return None
        c = f.nodes[f.strip(init, 'noop')]
        while c['k'] in ('ExprWithCleanups', 'MaterializeTemporaryExpr', 'CXXBindTemporaryExpr') and c['ch']:
            c = f.nodes[f.strip(c['ch'][0], 'noop')]
        if c['k'] not in ('CXXConstructExpr', 'CXXTemporaryObjectExpr'):
            return None
        real = [a for a in c.get('args', []) if f.nodes[f.strip(a, 'all')]['k'] != 'CXXDefaultArgExpr']
        if len(real) != 2:
            return None
        b, e = f.nodes[f.strip(real[0], 'all')], f.nodes[f.strip(real[1], 'all')]
        if not (b['k'] == 'CXXMemberCallExpr' and b['callee']['name'] in ('begin', 'cbegin') and b.get('obj') is not None):
            return None
        X = R.render(b['obj'])
        if e['k'] == 'CXXMemberCallExpr' and e['callee']['name'] in ('end', 'cend') and e.get('obj') is not None and R.render(e['obj']) == X:
            return d, self.ELEM[tm.group(1)][0], {(X + '.size',): 1}, X
        if e['k'] == 'CXXOperatorCallExpr' and e.get('op') == '+' and len(e.get('args', [])) == 2:
            e0 = f.nodes[f.strip(e['args'][0], 'all')]
            if e0['k'] == 'CXXMemberCallExpr' and e0['callee']['name'] in ('begin', 'cbegin') and e0.get('obj') is not None and R.render(e0['obj']) == X:
                return d, self.ELEM[tm.group(1)][0], P.poly(f, e['args'][1], R), X
        return None

    def gather_analysis(self, f, R, n, subst, depth):
        """the write call n emits a local buffer that was filled by appends: the tree of those appends
        (each an element-sized write of the appended value) stands for the write when the byte count
        is exactly (number of appended elements) x (element size)"""
        import symlocal
        args = f.call_args(n)
        rc = self.range_copy(f, R, args[0])
        if rc is not None:
            # a local vector<T> built as a copy of N elements of another container and never modified:
            # the byte count must be N x sizeof(T), else the bytes written straddle the elements
            import symlocal as _sl
            d_, esz_, npoly, srcr = rc
            try:
                ws_ = [subst_poly(w, subst) for w in _sl.expr_values_at(f, args[1], n['id'])]
            except _sl.Undecided as e:
                return {'verdict': 'unknown', 'why': 'byte count cannot be evaluated: %s' % e, 'local': d_['name'], 'esz': esz_}
            np_ = subst_poly(npoly, subst)
            out_ = {'local': d_['name'], 'esz': esz_, 'count': P.show(np_), 'width': '/'.join(P.show(w) for w in ws_), 'copy_of': substitute(srcr, subst)}
            if all(P.equal(w, P.mul(np_, P.const(esz_))) for w in ws_):
                out_.update(verdict='copy-exact', why='byte count = %s elements x %d' % (P.show(np_), esz_))
            else:
                out_.update(verdict='mismatch', why='the buffer holds %s elements of %d bytes (copied from %s) but %s bytes are written: the bytes written are not whole elements' %
                            (P.show(np_), esz_, out_['copy_of'], out_['width']))
            return out_
        gl = self.gather_local(f, args[0])
        if gl is None:
            return None
        d, (esz, tc, tw) = gl
        g = f.events()
        wv = g.vertex_of.get(n['id'])
        pushes = [c for c in f.calls() if c['callee']['name'] in ('push_back', 'emplace_back') and c.get('obj') is not None and
                  f.nodes[f.strip(c['obj'], 'all')].get('decl', {}).get('id') == d['id']]
        if wv is None or not pushes:
            return None
        after = g.reach([wv])
        for c in pushes:
            pv = g.vertex_of.get(c['id'])
            if pv is None or pv in after or wv not in g.reach([pv]):
                return {'verdict': 'unknown', 'why': 'the buffer is appended to after / around the write', 'local': d['name'], 'esz': esz}
        self._gather = {'id': d['id'], 'esz': esz, 'fn': f, 'name': d['name']}
        try:
            tree = self.stmt(f, R, f.body, subst, depth)
        finally:
            self._gather = None
        # element count
        dep = []

        def count(items, loopvars):
            tot = {}
            for it in items:
                if it[0] == 'io':
                    tot = P.add(tot, P.const(1))
                elif it[0] == 'loop':
                    if it[1] is None:
                        return None
                    for mono in it[1]:
                        for atom in mono:
                            if any(re.search(r'\blocal:%s\b' % re.escape(v), atom) for v in loopvars if v):
                                dep.append(atom)
                    inner = count(it[3], loopvars + [it[2]])
                    if inner is None:
                        return None
                    tot = P.add(tot, P.mul(it[1], inner))
                else:
                    return None
            return tot
        N = count(tree, [])
        try:
            ws = [subst_poly(w, subst) for w in symlocal.expr_values_at(f, args[1], n['id'])]
        except symlocal.Undecided as e:
            return {'verdict': 'unknown', 'why': 'byte count cannot be evaluated: %s' % e, 'local': d['name'], 'esz': esz, 'tree': tree}
        size_atom = substitute('local:%s.size' % d['name'], subst)
        own = {(size_atom,): esz}
        out = {'local': d['name'], 'esz': esz, 'tree': tree, 'count': P.show(N) if N is not None else None, 'width': '/'.join(P.show(w) for w in ws)}
        if all(P.equal(w, own) for w in ws):
            out.update(verdict='exact', why='byte count is %s.size() x %d' % (d['name'], esz))
        elif N is None:
            out.update(verdict='unknown', why='the number of appended elements has no closed form (conditional appends or uncounted loops)')
        elif dep:
            out.update(verdict='mismatch', why='the buffer holds one element per iteration of loops whose trip counts vary (%s) while the byte count %s is a fixed product: '
                       'when a later range is shorter than the one the product uses, bytes past the constructed elements are written' % (', '.join(sorted(set(dep))[:2]), out['width']))
        elif all(P.equal(w, P.mul(N, P.const(esz))) for w in ws):
            out.update(verdict='exact', why='byte count = %s elements x %d' % (P.show(N), esz))
        else:
            out.update(verdict='mismatch', why='%s bytes are written from a buffer holding %s elements of %d bytes' % (out['width'], P.show(N), esz))
        return out

    _touch = {}

    def callee_touches_medium(self, cf):
        return self.medium_param(cf) is not None or (self.mode == 'r' and cf.cls == 'ezc3d::c3d' and cf.name in
                                                   ('readInt', 'readUint', 'readFloat', 'readString', 'readParam', '_readMatrix', 'readFile'))

    # -- one I/O call --------------------------------------------------------------------------
    def io_item(self, f, R, n, subst, dest):
        c = n['callee']
        obj = f.call_obj(n)
        G = getattr(self, '_gather', None)
        if G is not None:
            # gather mode: the appends to the local buffer are the "writes"
            if obj is not None and c['name'] in ('push_back', 'emplace_back') and c.get('classq', '').startswith('std::vector'):
                o = f.nodes[f.strip(obj, 'all')]
                a = f.call_args(n)
                if o['k'] == 'DeclRefExpr' and o['decl'].get('id') == G['id'] and len(a) == 1 and f is G['fn']:
                    v = f.nodes[f.strip(a[0], 'noop')]
                    return ('io', {'k': 'write', 'node': n['id'], 'fn': f, 'where': f.loc(n['id']), 'srck': 'object', 'src': substitute(R.render(v['id']), subst),
                                   'src_tc': v.get('tc'), 'src_tw': v.get('tw'), 'src_node': v['id'], 'width': P.const(G['esz']), 'width_alts': [P.const(G['esz'])],
                                   'gathered': G['name']})
            return None
        if obj is None or not self.is_medium(f, obj):
            return None
        name = c['name']
        args = f.call_args(n)
        if self.mode == 'w':
            if name in ('write',) and len(args) == 2:
                return ('io', self.write_item(f, R, n, args, subst))
            if name in ('tellg', 'tellp'):
                return ('slot', 'tell', dest, n['id'], f)
            if name in ('seekg', 'seekp'):
                return ('slot', 'seek', substitute(self.var_or_render(f, R, args[0]), subst), n['id'], f)
            if name in ('put', 'operator<<', 'flush', 'close'):
                return ('io', {'k': name, 'node': n['id'], 'fn': f, 'src': substitute(R.render(args[0]), subst) if args else '', 'width': None,
                               'srck': 'other', 'where': f.loc(n['id'])})
            return None
        # reader
        if name in READERS and c.get('classq') == 'ezc3d::c3d':
            it = {'k': name, 'sign': READERS[name], 'node': n['id'], 'fn': f, 'dest': dest, 'where': f.loc(n['id'])}
            pts = [p for p in c.get('ptypes', [])]
            ai = 0
            if name != 'readFloat':
                it['width'] = subst_poly(P.poly(f, args[0], R), subst)
                ai = 1
            else:
                it['width'] = P.const(4)
            # seek arguments
            skip = args[ai] if ai < len(args) else None
            pos = args[ai + 1] if ai + 1 < len(args) else None
            sk = f.nodes[f.strip(skip, 'all')] if skip is not None else None
            if sk is not None and sk['k'] != 'CXXDefaultArgExpr':
                it['skip'] = subst_poly(P.poly(f, skip, R), subst)
                pn = f.nodes[f.strip(pos, 'all')] if pos is not None else None
                it['whence'] = pn.get('cv') if pn is not None else None
            # post-transform: what is done with the value before it reaches dest
            it['post'] = self.post_transform(f, R, n['id'])
            return ('io', it)
        if name in ('tellg',):
            return ('slot', 'tell', dest, n['id'], f)
        if name in ('seekg',):
            return ('slot', 'seek', substitute(R.render(args[0]), subst), n['id'], f)
        if name in ('eof', 'is_open', 'close', 'read'):
            return ('io', {'k': name, 'node': n['id'], 'fn': f, 'dest': dest, 'width': None, 'sign': None, 'where': f.loc(n['id'])})
        return None

    def var_or_render(self, f, R, i):
        m = f.nodes[f.strip(i, 'all')]
        if m['k'] == 'DeclRefExpr' and m['decl'].get('dk') == 'local':
            return 'local:' + m['decl']['name']
        return R.render(i)

    def post_transform(self, f, R, nid):
        """arithmetic / casts applied to the value of call nid on the way up to its consumer, as a
        list of ('cast', type) / ('op', op, other-operand render)"""
        out = []
        cur = nid
        for p in f.ancestors(nid):
            pn = f.nodes[p]
            k = pn['k']
            if k in ('ParenExpr', 'ExprWithCleanups', 'MaterializeTemporaryExpr', 'CXXBindTemporaryExpr'):
                cur = p
                continue
            if k in ('ImplicitCastExpr', 'CXXStaticCastExpr', 'CStyleCastExpr', 'CXXFunctionalCastExpr'):
                ck = pn.get('ck')
                if ck in ('IntegralCast', 'IntegralToFloating', 'FloatingToIntegral', 'FloatingCast', 'IntegralToBoolean'):
                    out.append(('cast', pn['t'], pn.get('tw'), pn.get('tc')))
                cur = p
                continue
            if k == 'BinaryOperator' and pn['op'] in ('+', '-', '*', '/'):
                other = pn['ch'][1] if f.strip(pn['ch'][0], 'all') == f.strip(cur, 'all') or cur in f.descendants(pn['ch'][0]) else pn['ch'][0]
                out.append(('op', pn['op'], R.render(other)))
                cur = p
                continue
            if k == 'CallExpr' and pn.get('callee', {}).get('name') in ('abs',):
                out.append(('abs',))
                cur = p
                continue
            break
        return out

    def write_item(self, f, R, n, args, subst):
        import symlocal
        it = {'k': 'write', 'node': n['id'], 'fn': f, 'where': f.loc(n['id'])}
        try:
            ws = symlocal.expr_values_at(f, args[1], n['id'])
            it['width_alts'] = [subst_poly(w, subst) for w in ws]
            it['width'] = it['width_alts'][0] if len(it['width_alts']) == 1 else None
        except symlocal.Undecided as e:
            it['width'] = None
            it['width_alts'] = []
            it['width_err'] = str(e)
        m = f.nodes[f.strip(args[0], 'all')]
        hops = 0
        while m['k'] == 'DeclRefExpr' and m['decl'].get('dk') == 'local' and m['decl'].get('tc') == 'p' and hops < 3 and local_init(f, m['decl']['id']) is not None:
            m = f.nodes[f.strip(local_init(f, m['decl']['id']), 'all')]
            hops += 1
        if m['k'] == 'ConditionalOperator' and all(f.nodes[f.strip(m[x], 'all')]['k'] == 'UnaryOperator' and f.nodes[f.strip(m[x], 'all')].get('op') == '&' for x in ('lhs', 'rhs') if x in m) and 'lhs' in m and 'rhs' in m:
            # cond ? &A : &B  -- one object or another is emitted: keep both with the condition
            a_ = f.nodes[f.strip(f.nodes[f.strip(m['lhs'], 'all')]['ch'][0], 'noop')]
            b_ = f.nodes[f.strip(f.nodes[f.strip(m['rhs'], 'all')]['ch'][0], 'noop')]
            cnd = substitute(R.render(m['cond']), subst)
            it['src_cond'] = [(cnd, substitute(R.render(a_['id']), subst)), ('!' + cnd, substitute(R.render(b_['id']), subst))]
            m = f.nodes[f.strip(m['lhs'], 'all')]
        if m['k'] == 'UnaryOperator' and m['op'] == '&':
            obj = f.nodes[f.strip(m['ch'][0], 'noop')]
            it['srck'] = 'object'
            it['src'] = substitute(R.render(obj['id']), subst)
            it['src_tc'] = obj.get('tc')
            it['src_tw'] = obj.get('tw')
            it['src_node'] = obj['id']
            # a local with a single definition shows through to its initialiser in `src`; keep the
            # declared type of the local (that is what is emitted)
            b = f.nodes[f.strip(obj['id'], 'all')]
            from paths import range_vars
            if b['k'] == 'DeclRefExpr' and b['decl'].get('dk') == 'local' and b['decl']['id'] in range_vars(f) and range_vars(f)[b['decl']['id']][1]:
                pass   # a reference to the current element of a range-for: the element itself is emitted
            elif b['k'] == 'DeclRefExpr' and b['decl'].get('dk') == 'local':
                it['src_local'] = b['decl']['name']
                it['src'] = 'local:' + b['decl']['name']
                try:
                    cases = symlocal.cases_at(f, b['decl']['id'], n['id'])
                    it['src_cases'] = [(subst_poly(v, subst) if v is not None else None, {substitute(k, subst): t for k, t in val.items()}) for v, val in cases]
                    vals = []
                    for v, _ in it['src_cases']:
                        if v is not None and not any(P.equal(v, x) for x in vals):
                            vals.append(v)
                    it['src_vals'] = vals
                    if any(v is None for v, _ in it['src_cases']):
                        it['src_vals'] = None
                except symlocal.Undecided:
                    it['src_vals'] = None
            elif b['k'] == 'DeclRefExpr' and b['decl'].get('dk') == 'param':
                it['src_vals'] = [subst_poly(P.poly(f, obj['id'], R), subst)]
        elif m['k'] == 'CXXMemberCallExpr' and m['callee']['name'] == 'data' and m['callee'].get('classq') == 'std::vector':
            z = zero_vector(f, m['obj'], R)
            if z is not None:
                it['srck'] = 'zeros'
                it['src'] = 'zeros'
                it['zeros_n'] = subst_poly(z, subst)
                # a byte count spelled as the buffer's own size() is its element count
                own = (substitute(R.render(m['obj']), subst) + '.size', R.render(m['obj']) + '.size')

                def own_size_z(w):
                    if w is None:
                        return w
                    o2 = {}
                    for mono, c in w.items():
                        if len(mono) == 1 and mono[0] in own:
                            for m2, c2 in it['zeros_n'].items():
                                o2[m2] = o2.get(m2, 0) + c * c2
                        else:
                            o2[mono] = o2.get(mono, 0) + c
                    return {k: v for k, v in o2.items() if v != 0}
                it['width'] = own_size_z(it.get('width'))
                it['width_alts'] = [own_size_z(w) for w in it.get('width_alts', [])]
            else:
                it['srck'] = 'other'
                it['src'] = substitute(R.render(args[0]), subst)
                sz = sized_buffer(f, m['obj'], R)
                if sz is not None:
                    own = (substitute(R.render(m['obj']), subst) + '.size', R.render(m['obj']) + '.size', 'local:%s.size' % f.nodes[f.strip(m['obj'], 'all')].get('decl', {}).get('name'))
                    szp = subst_poly(sz, subst)

                    def own_size_b(w):
                        if w is None:
                            return w
                        o2 = {}
                        for mono, c in w.items():
                            if len(mono) == 1 and mono[0] in own:
                                for m2, c2 in szp.items():
                                    o2[m2] = o2.get(m2, 0) + c * c2
                            else:
                                o2[mono] = o2.get(mono, 0) + c
                        return {k: v for k, v in o2.items() if v != 0}
                    it['width'] = own_size_b(it.get('width'))
                    it['width_alts'] = [own_size_b(w) for w in it.get('width_alts', [])]
        elif m['k'] == 'CXXMemberCallExpr' and m['callee']['name'] in ('c_str', 'data') and m['callee'].get('classq') in ('std::basic_string', 'std::vector') and \
                filled_buffer(f, m['obj'], R) is not None and filled_buffer(f, m['obj'], R)[1] != 0:
            n_, ch_ = filled_buffer(f, m['obj'], R)
            it['srck'] = 'fill'
            it['src'] = 'fill(%d)' % ch_
            it['fill_char'] = ch_
            it['fill_n'] = subst_poly(n_, subst)
            own = substitute(R.render(m['obj']), subst) + '.size'
            raw = R.render(m['obj']) + '.size'

            def own_size(w):
                if w is None:
                    return w
                out = {}
                for mono, c in w.items():
                    if mono in ((own,), (raw,)):
                        for m2, c2 in it['fill_n'].items():
                            out[m2] = out.get(m2, 0) + c * c2
                    else:
                        out[mono] = out.get(mono, 0) + c
                return {k: v for k, v in out.items() if v != 0}
            it['width'] = own_size(it.get('width'))
            it['width_alts'] = [own_size(w) for w in it.get('width_alts', [])]
        elif m['k'] == 'CXXMemberCallExpr' and m['callee']['name'] in ('c_str', 'data') and m['callee'].get('classq') == 'std::basic_string':
            it['srck'] = 'string'
            it['src'] = substitute(R.render(m['obj']), subst)
        elif m['k'] == 'DeclRefExpr' and m['decl'].get('dk') == 'local':
            it['srck'] = 'array'
            it['src'] = 'local:' + m['decl']['name']
            it['src_type'] = m['decl'].get('type')
            # filled by  S.copy(arr, n): the semantic source is S
            for cn in f.calls():
                if cn['callee']['name'] == 'copy' and cn['callee'].get('classq') == 'std::basic_string' and cn.get('args'):
                    a0 = f.nodes[f.strip(cn['args'][0], 'all')]
                    if a0['k'] == 'DeclRefExpr' and a0['decl'].get('id') == m['decl']['id']:
                        it['src_from'] = substitute(R.render(cn['obj']), subst)
                        it['copy_n'] = subst_poly(P.poly(f, cn['args'][1], R), subst)
        else:
            it['srck'] = 'other'
            it['src'] = substitute(R.render(args[0]), subst)
        return it


def filled_buffer(f, obj, R):
    """obj designates a std::string / std::vector<char> constructed as (N, c) (a local never modified
    afterwards, or a temporary): -> (poly of N, character code) else None"""
    n = f.nodes[f.strip(obj, 'all')]
    c = None
    if n['k'] == 'DeclRefExpr' and n['decl'].get('dk') == 'local':
        init = local_init(f, n['decl']['id'])
        if init is None or n['decl']['id'] not in R.single_def_locals():
            return None
        c = f.nodes[f.strip(init, 'noop')]
    else:
        c = f.nodes[f.strip(obj, 'noop')]
    while c['k'] in ('ExprWithCleanups', 'MaterializeTemporaryExpr', 'CXXBindTemporaryExpr', 'ImplicitCastExpr', 'CXXFunctionalCastExpr') and c['ch']:
        c = f.nodes[f.strip(c['ch'][0], 'noop')]
    if c['k'] not in ('CXXConstructExpr', 'CXXTemporaryObjectExpr') or len(c.get('args', [])) < 2:
        return None
    cls = c['callee'].get('class', '')
    if not (cls.startswith('std::vector<char') or cls.startswith('std::basic_string<char') or cls == 'std::string' or cls.startswith('std::vector<unsigned char')):
        return None
    # (count, value [, allocator]) : the first argument must be integral, not an iterator / pointer
    a0 = f.nodes[f.strip(c['args'][0], 'noop')]
    if a0.get('tc') not in ('u', 's'):
        return None
    fill = f.nodes[f.strip(c['args'][1], 'all')]
    if fill.get('cv') is None:
        if fill['k'] == 'CharacterLiteral':
            code = int(fill.get('v'))
        else:
            return None
    else:
        code = int(fill['cv'])
    return P.poly(f, c['args'][0], R), code


def sized_buffer(f, obj, R):
    """obj is a local std::vector / std::string constructed with a count (N [, value]) and never
    resized afterwards (its elements may be overwritten): -> poly of N, else None"""
    n = f.nodes[f.strip(obj, 'all')]
    if n['k'] != 'DeclRefExpr' or n['decl'].get('dk') != 'local':
        return None
    init = local_init(f, n['decl']['id'])
    if init is None:
        return None
    c = f.nodes[f.strip(init, 'noop')]
    while c['k'] in ('ExprWithCleanups', 'MaterializeTemporaryExpr', 'CXXBindTemporaryExpr') and c['ch']:
        c = f.nodes[f.strip(c['ch'][0], 'noop')]
    if c['k'] not in ('CXXConstructExpr', 'CXXTemporaryObjectExpr') or not c.get('args'):
        return None
    a0 = f.nodes[f.strip(c['args'][0], 'noop')]
    if a0.get('tc') not in ('u', 's'):
        return None
    for x in f.calls():
        if x.get('obj') is not None and x['callee']['name'] in ('resize', 'push_back', 'emplace_back', 'insert', 'erase', 'clear', 'assign', 'pop_back', 'operator=', 'swap', 'reserve', 'append', 'operator+='):
            o = f.nodes[f.strip(x['obj'], 'all')]
            if o['k'] == 'DeclRefExpr' and o['decl'].get('id') == n['decl']['id']:
                return None
    return P.poly(f, c['args'][0], R)


def zero_vector(f, obj, R):
    """obj designates a std::vector<char> that was constructed as (N, 0) and never modified: -> poly of N"""
    n = f.nodes[f.strip(obj, 'all')]
    if n['k'] != 'DeclRefExpr' or n['decl'].get('dk') != 'local':
        return None
    init = local_init(f, n['decl']['id'])
    if init is None or n['decl']['id'] not in R.single_def_locals():
        return None
    c = f.nodes[f.strip(init, 'noop')]
    while c['k'] in ('ExprWithCleanups', 'MaterializeTemporaryExpr', 'CXXBindTemporaryExpr') and c['ch']:
        c = f.nodes[f.strip(c['ch'][0], 'noop')]
    if c['k'] not in ('CXXConstructExpr', 'CXXTemporaryObjectExpr') or c['callee'].get('class') != 'std::vector<char>' or len(c.get('args', [])) < 2:
        return None
    fill = f.nodes[f.strip(c['args'][1], 'all')]
    if fill.get('cv') != '0':
        return None
    return P.poly(f, c['args'][0], R)


def show(items, ind=0, out=None):
    out = out if out is not None else []
    pad = '  ' * ind
    for it in items:
        t = it[0]
        if t == 'io':
            d = it[1]
            w = P.show(d['width']) if d.get('width') is not None else ('/'.join(P.show(x) for x in d.get('width_alts', [])) or '?')
            if 'src' in d:
                sv = ''
                if d.get('src_vals'):
                    sv = ' vals=' + '|'.join(P.show(v) for v in d['src_vals'])
                out.append('%sW %-8s %-60s w=%s tc=%s/%s%s' % (pad, d.get('srck'), d['src'][:60], w, d.get('src_tc'), d.get('src_tw'), sv))
            else:
                extra = ''
                if 'skip' in d:
                    extra = ' seek(%s, whence=%s)' % (P.show(d['skip']), d.get('whence'))
                out.append('%sR %-10s -> %-50s w=%s post=%s%s' % (pad, d['k'], str(d.get('dest'))[:50], w, d.get('post'), extra))
        elif t == 'loop':
            out.append('%sLOOP x(%s) var=%s' % (pad, P.show(it[1]) if it[1] is not None else '?', it[2]))
            show(it[3], ind + 1, out)
        elif t == 'alt':
            out.append('%sIF %s' % (pad, it[1][:110]))
            show(it[2], ind + 1, out)
            if it[3]:
                out.append('%sELSE' % pad)
                show(it[3], ind + 1, out)
        elif t == 'call':
            out.append('%sCALL %s' % (pad, it[1].qname))
            show(it[3], ind + 1, out)
        elif t == 'slot':
            out.append('%sSLOT %s %s' % (pad, it[1], it[2]))
        elif t == 'rec':
            out.append('%sREC %s' % (pad, it[1].name))
    return out


if __name__ == '__main__':
    import sys
    import facts
    p = facts.load()
    mode = sys.argv[1]
    f = p.fn(sys.argv[2], nparams=int(sys.argv[3]) if len(sys.argv) > 3 else None)
    ex = Extractor(p, mode)
    print('\n'.join(show(ex.seq_of(f))))
