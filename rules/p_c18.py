"""C18 — independent objects can be used from different threads.

A data race needs a memory location reachable from two threads.  The rules show the library
creates none: no mutable static storage, no use of foreign mutable statics or non-reentrant libc
functions, all working state of c3d is per object, and objects cannot share
section handles."""
import re
import json
import effects as FX
import os
from facts import AnalysisBroken, VERIF
from paths import root_of
from result import Result


def is_print(f):
    return f.name == 'print'


def run(prog, tier):
    res = Result('C18', tier,
                 'Inventory + discipline rules over all %d functions: (static) no variable with static storage '
                 'in the library unless const with constant initialisation; (foreign-static) no reference to a '
                 'mutable static-storage object declared outside the repository except the synchronized standard streams; '
                 '(unsafe-call) no call of a non-reentrant libc/POSIX function; (per-object) every pointer/handle '
                 'member of ezc3d::c3d is assigned only from a fresh allocation inside c3d\'s own constructors and '
                 'c3d is not copyable; (no-sharing) no stored frame aliases a caller\'s frame (C08 ownership rule).'
                 % len(prog.funcs),
                 assumptions=['the allocator, iostream locale machinery and the file system are thread-safe by their own specification',
                              '::toupper reads the global C locale, which the library never writes',
                              'the standard stream objects are race-free by [iostream.objects.overview]/4 (sync_with_stdio is never called: on the denylist)'],
                 not_decided=['observational equivalence with a sequential run follows from absence of shared locations; it is not observed'])
    spec = json.load(open(os.path.join(VERIF, 'spec', 'thread_unsafe.json')))
    unsafe = set(spec['functions'])

    # (static) ---------------------------------------------------------------------------------
    for key, s in sorted(prog.statics.items()):
        where = '%s:%d' % (os.path.relpath(s['file'], prog.repo), s['line'])
        if (s['const'] or s['constexpr']) and s['const_init']:
            res.ok('static', s['qname'], where, 'const with constant initialisation', function='', expr=s['qname'])
        else:
            kind = 'function-local static' if s['staticlocal'] else ('static data member' if s['staticmember'] else 'namespace-scope variable')
            res.viol('static', s['qname'], where,
                     '%s of type %s is mutable shared state (or dynamically initialised): reachable from every thread' % (kind, s['type']),
                     function='', expr=s['qname'])
    res.ok('static', 'inventory of static-storage variables in src/ and include/', 'src/, include/',
           '%d variables with static storage found' % len(prog.statics), function='', expr='inventory', nontrivial=False)

    # (foreign-static), (unsafe-call) ---------------------------------------------------------
    nrefs = ncalls = 0
    for f in prog.repo_funcs(implicit=True):
        for n in f.all_nodes({'DeclRefExpr'}):
            d = n['decl']
            if d.get('static_storage') and not d.get('inrepo'):
                nrefs += 1
                t = d.get('type', '')
                immutable = t.startswith('const ') and d.get('tc') in ('s', 'u', 'e', 'b', 'f')
                if immutable:
                    res.ok('foreign-static', d['qname'], f.loc(n['id']), 'immutable constant', function=f.sig,
                           expr='%s@%d' % (d['qname'], n['id']), nontrivial=False)
                elif d['qname'] in ('std::cout', 'std::cerr', 'std::clog', 'std::cin'):
                    # [iostream.objects.overview]/4: concurrent access to the synchronized standard
                    # stream objects does not result in a data race
                    res.ok('foreign-static', d['qname'], f.loc(n['id']), 'synchronized standard stream object', function=f.sig,
                           expr='%s@%d' % (d['qname'], n['id']), nontrivial=False)
                else:
                    res.viol('foreign-static', d['qname'], f.loc(n['id']),
                             'mutable static-storage object %s declared outside the library is shared between threads' % d['qname'],
                             function=f.sig, expr=d['qname'])
        for n in f.calls():
            ncalls += 1
            c = n['callee']
            if c['inrepo']:
                continue
            q = c['qname']
            if q in unsafe or (not c.get('class') and c['name'] in unsafe and '::' not in q.replace('std::', '')):
                res.viol('unsafe-call', q, f.loc(n['id']),
                         'call of %s, which is not required to be thread-safe (hidden static state)' % q,
                         function=f.sig, expr=q)
    res.ok('unsafe-call', 'all call sites screened against spec/thread_unsafe.json', 'src/',
           '%d call sites, %d denylisted names' % (ncalls, len(unsafe)), function='', expr='screen')
    res.minimum('call sites screened', ncalls, 500)
    res.minimum('foreign static references', nrefs, 20)

    # (per-object) -----------------------------------------------------------------------------
    c3d = prog.classes.get('ezc3d::c3d')
    if not c3d:
        raise AnalysisBroken('class ezc3d::c3d vanished')
    handles = [fl for fl in c3d['fields'] if fl['own'] != 'value']
    res.minimum('pointer/handle members of c3d', len(handles), 3)
    ctors = [f for f in prog.repo_funcs() if f.cls == 'ezc3d::c3d' and f.kind == 'ctor']
    res.minimum('c3d constructors', len(ctors), 2)
    for fl in handles:
        # every write to the field anywhere in the library
        writes = field_writes(prog, 'ezc3d::c3d', fl['name'])
        if not writes:
            res.viol('per-object', fl['name'], 'include/ezc3d.h:%d' % fl['line'], 'handle is never assigned', function='', expr=fl['name'])
        from paths import Renderer
        for f, nid, rhs in writes:
            fresh = rhs is not None and contains_new(f, rhs)
            in_ctor = f.cls == 'ezc3d::c3d' and f.kind == 'ctor'
            own_member = f.cls == 'ezc3d::c3d'
            if fresh and own_member:
                res.ok('per-object', '%s <- fresh allocation' % fl['name'], f.loc(nid), function=f.sig, expr=fl['name'])
                continue
            # positive evidence of sharing: the handle is taken from a parameter / another object / a static
            rr = Renderer(f).render(rhs) if rhs is not None else ''
            if rhs is not None and (re.search(r'\barg\d+\b', rr) or 'static:' in rr or re.search(r'\._\w+\b', rr.replace('this.', ''))) and not fresh:
                res.viol('per-object', fl['name'], f.loc(nid),
                         'member %s of c3d is assigned from something that is not a fresh allocation (%s): '
                         'two objects may share it' % (fl['name'], rr[:80]), function=f.sig, expr=fl['name'], sure=True)
            elif not own_member:
                res.viol('per-object', fl['name'], f.loc(nid),
                         'member %s of c3d is assigned outside the class (%s): two objects may share it' % (fl['name'], rr[:80]), function=f.sig, expr=fl['name'])
            else:
                res.undecided('per-object', fl['name'], f.loc(nid), 'member %s of c3d is assigned from %s, which the rule cannot classify as fresh or shared [shape not read by the rule]' % (fl['name'], rr[:80] or 'nothing'),
                              function=f.sig, expr=fl['name'])
        # every constructor assigns it, itself or through members of the class it calls
        writers = {f.usr for f, _, _ in writes}
        for c in ctors:
            reach = prog.reachable_from([c])
            if not (writers & (set(reach) | {c.usr})):
                res.viol('per-object', fl['name'], c.loc(), 'constructor leaves %s unassigned' % fl['name'], function=c.sig, expr=fl['name'] + ':unassigned')
    # c3d not copyable: base std::fstream has a deleted copy constructor; implicit copy of c3d is
    # therefore deleted unless someone declares one
    sp = c3d['special']
    copy_ops = [m for m in c3d['methods'] if not m.get('implicit') and ((m.get('kind') == 'ctor' and m.get('copy')) or (m.get('name') == 'operator=' and m.get('copyassign', True)))]
    if (sp['user_copy_ctor'] or sp['user_copy_assign']) and copy_ops and all(m.get('deleted') for m in copy_ops):
        res.ok('per-object', 'c3d is not copyable (copy operations explicitly deleted)', 'include/ezc3d.h:%d' % c3d['line'], function='', expr='copy')
    elif sp['user_copy_ctor'] or sp['user_copy_assign']:
        res.viol('per-object', 'c3d copy operations', 'include/ezc3d.h:%d' % c3d['line'],
                 'c3d declares copy operations: two objects could share section handles and the scratch buffer',
                 function='', expr='copy')
    elif not any(b.startswith('std::basic_fstream') for b in c3d['bases']):
        res.viol('per-object', 'c3d copy operations', 'include/ezc3d.h:%d' % c3d['line'],
                 'c3d no longer derives from a non-copyable stream: implicit copy would alias the raw scratch buffer',
                 function='', expr='copy-base')
    else:
        res.ok('per-object', 'c3d is not copyable (non-copyable base, no user copy operations)', 'include/ezc3d.h:%d' % c3d['line'], function='', expr='copy')

    # (fs-path) every file the library opens is named by the caller: the path handed to a stream
    # constructor/open is exactly a function parameter; no rename/remove/temporary files
    FS_CALLS = {'rename', 'remove', 'std::rename', 'std::remove', 'tmpfile', 'std::tmpfile', 'fopen', 'std::fopen', 'freopen', 'unlink',
                'mkstemp', 'link', 'symlink', 'truncate', 'open', 'creat'}
    nopen = 0
    for f in prog.repo_funcs():
        for n in f.calls():
            c = n['callee']
            cq = c.get('classq', '')
            is_stream_open = cq in ('std::basic_fstream', 'std::basic_ofstream', 'std::basic_ifstream', 'std::basic_filebuf') and \
                (n['k'] in ('CXXConstructExpr', 'CXXTemporaryObjectExpr') or c['name'] == 'open') and c['nparams'] >= 1 and \
                not (c.get('copy') or c.get('move'))
            if is_stream_open:
                nopen += 1
                args = f.call_args(n) if n['k'] not in ('CXXConstructExpr', 'CXXTemporaryObjectExpr') else n['args']
                kind, path = root_of(f, args[0])
                bare = derived_only_from_params(f, args[0])
                if bare:
                    res.ok('fs-path', 'opens the path given by the caller', f.loc(n['id']), function=f.sig, expr='open@%d' % n['id'])
                else:
                    res.viol('fs-path', 'file opened under a derived path', f.loc(n['id']),
                             'the library opens a file whose name is not exactly the caller\'s argument (%s %s): objects used from different threads may meet in the same file' % (kind, '.'.join(path)),
                             function=f.sig, expr='open')
            elif not c.get('class') and (c['qname'] in FS_CALLS or c['name'] in FS_CALLS) and not c['inrepo']:
                if all(derived_only_from_params(f, a) for a in n.get('args', [])):
                    res.ok('fs-path', c['qname'] + ' on a path derived from the caller\'s argument', f.loc(n['id']), function=f.sig, expr='%s@%d' % (c['qname'], n['id']))
                    continue
                res.viol('fs-path', c['qname'], f.loc(n['id']), 'file-system call %s: the library touches files the caller did not name' % c['qname'],
                         function=f.sig, expr=c['qname'])
    res.minimum('file-opening calls', nopen, 2)

    # (const-input) a function never writes to what a `const T &` parameter designates (the const-bypass accessors
    # make that possible without a cast): an input that several threads hand to their own objects stays read-only
    E = FX.get(prog)
    ncr = 0
    for f in prog.repo_funcs():
        for k, p_ in enumerate(f.rec.get('params', [])):
            t = p_['type']
            if not (t.startswith('const ') and t.endswith('&')):
                continue
            ncr += 1
            ef = sorted({FX.fmt(e) for e in E.of(f) if e[0] == 'param:%d' % k})
            if ef:
                res.viol('const-input', '%s: parameter %d (%s)' % (f.qname.split('::')[-1], k, t), f.loc(), 'the function writes to the object behind its const reference parameter: %s; the same read-only input '
                         'handed to objects in different threads is modified concurrently' % ef[:3], function=f.sig, expr='const-input:%s:%d' % (f.name, k))
    res.ok('const-input', 'const reference parameters are never written through', 'src/', '%d const reference parameters screened' % ncr, function='', expr='const-input', nontrivial=False)
    res.minimum('const reference parameters', ncr, 60)

    # (no-sharing) ----------------------------------------------------------------------------
    try:
        import p_c08
        p_c08.ownership_rules(prog, res, rule_prefix='no-sharing')
    except ImportError:
        pass
    return res


def derived_only_from_params(f, i):
    """the expression is built from the function's own parameters and literals only (through
    single-definition locals, std::string concatenation and c_str())"""
    import re as _re
    from paths import Renderer
    r = Renderer(f).render(i)
    r = _re.sub(r'"[^"]*"', '', r)
    if 'this' in r or 'local:' in r or '?' in r:
        return False
    for tok in _re.findall(r'[A-Za-z_][\w:]*', r):
        if _re.match(r'^arg\d+$', tok) or tok.startswith('std::') or tok in ('c_str', 'data', 'default', 'char', 'const', 'unsigned', 'long', 'int'):
            continue
        return False
    return True


def field_writes(prog, cls, field):
    """[(func, node id, rhs node id or None)] for every assignment / member-initialiser of cls::field"""
    out = []
    for f in prog.funcs.values():
        if f.kind == 'ctor' and f.cls == cls:
            for i in f.rec.get('inits', []):
                if i.get('field') == field and i['written']:
                    out.append((f, i['expr'], i['expr']))
        for n in f.nodes:
            lhs = rhs = None
            if n['k'] == 'BinaryOperator' and n['op'] == '=':
                lhs, rhs = n['ch']
            elif n['k'] == 'CXXOperatorCallExpr' and n.get('op') == '=':
                lhs, rhs = n['args'][0], n['args'][1]
            elif n['k'] == 'CompoundAssignOperator' or (n['k'] == 'UnaryOperator' and n['op'] in ('++', '--')):
                lhs = n['ch'][0]
            elif n['k'] == 'CXXMemberCallExpr' and n['callee']['name'] in ('reset', 'swap') and n.get('obj') is not None:
                lhs = n['obj']
                rhs = n['args'][0] if n['args'] else None
            if lhs is None:
                continue
            m = f.nodes[f.strip(lhs, 'all')]
            if m['k'] == 'MemberExpr' and m.get('mk') == 'field' and m['member'] == field and m.get('fclass') == cls:
                out.append((f, n['id'], rhs))
    return out


def alloc_wrapper(prog, usr):
    """a repo function all of whose returns are `new T[...]` / `new T(...)` (an allocation wrapper):
    -> (func, new-expression node) else None"""
    g = prog.funcs.get(usr)
    if g is None:
        return None
    rets = [r for r in g.all_nodes({'ReturnStmt'}) if r['ch']]
    if not rets:
        return None
    out = None
    for r in rets:
        n = g.nodes[g.strip(r['ch'][0], 'all')]
        if n['k'] == 'DeclRefExpr' and n['decl'].get('dk') == 'local':
            # `T* p = new T[n]; ...fill...; return p;` - the local that is handed back holds the fresh allocation (and is not released here)
            from paths import local_init as _li
            ini = _li(g, n['decl']['id'])
            reassigned = [x for x in g.all_nodes({'BinaryOperator'}) if x.get('op') == '=' and g.nodes[g.strip(x['ch'][0], 'all')].get('decl', {}).get('id') == n['decl']['id']]
            deleted = [x for x in g.all_nodes({'CXXDeleteExpr'}) if g.nodes[g.strip(x['arg'], 'all')].get('decl', {}).get('id') == n['decl']['id']]
            if ini is not None and not reassigned and not deleted:
                n = g.nodes[g.strip(ini, 'all')]
        hops = 0
        # std::shared_ptr<T>(new T(x)) / std::unique_ptr<T>(new T(x)): a smart pointer built around the fresh allocation
        while n['k'] in ('CXXConstructExpr', 'CXXTemporaryObjectExpr', 'CXXFunctionalCastExpr', 'CXXBindTemporaryExpr', 'MaterializeTemporaryExpr', 'ExprWithCleanups') and hops < 6:
            kids = n.get('args') if n['k'] in ('CXXConstructExpr', 'CXXTemporaryObjectExpr') else n.get('ch')
            cls_ = str(n.get('callee', {}).get('class', ''))
            if n['k'] in ('CXXConstructExpr', 'CXXTemporaryObjectExpr') and not (cls_.startswith('std::shared_ptr') or cls_.startswith('std::unique_ptr') or cls_.startswith('std::__shared_ptr')):
                break
            real = [k_ for k_ in (kids or []) if g.nodes[g.strip(k_, 'all')]['k'] != 'CXXDefaultArgExpr']
            if len(real) != 1:
                break
            n = g.nodes[g.strip(real[0], 'all')]
            hops += 1
        if n['k'] == 'CallExpr' and n.get('callee', {}).get('qname') in ('std::make_shared', 'std::make_unique'):
            out = n
            continue
        if n['k'] != 'CXXNewExpr':
            return None
        out = n
    return g, out


def as_new(f, i, depth=0):
    """expression i is (through single-definition locals, smart-pointer construction and allocation
    wrappers) a fresh allocation: -> dict(array, size_poly or None, where) else None"""
    import poly as P
    from paths import Renderer, local_init
    i = f.strip(i, 'all')
    n = f.nodes[i]
    if n['k'] == 'CXXNewExpr':
        sp = P.poly(f, n['arrsize'], Renderer(f)) if n.get('array') and 'arrsize' in n else None
        return {'array': bool(n.get('array')), 'size': sp, 'where': f.loc(i)}
    if depth > 4:
        return None
    if n['k'] == 'DeclRefExpr' and n['decl'].get('dk') == 'local':
        R = Renderer(f)
        init = local_init(f, n['decl']['id'])
        if init is not None and (n['decl']['id'] in R.single_def_locals() or not _reassigned(f, n['decl']['id'])):
            return as_new(f, init, depth + 1)
        return None
    if n['k'] in ('CXXConstructExpr', 'CXXTemporaryObjectExpr', 'CXXFunctionalCastExpr', 'CXXBindTemporaryExpr', 'MaterializeTemporaryExpr') and n['ch']:
        # shared_ptr<T>(new T(..)) / copy or move of a fresh smart pointer
        for c in n.get('args', n['ch']):
            r = as_new(f, c, depth + 1)
            if r:
                return r
        return None
    if n['k'] == 'CallExpr' and n.get('callee', {}).get('qname') in ('std::move', 'std::make_shared', 'std::make_unique'):
        if n['callee']['qname'] != 'std::move':
            return {'array': False, 'size': None, 'where': f.loc(i)}
        return as_new(f, n['args'][0], depth + 1)
    if n['k'] == 'CXXMemberCallExpr' and n['callee']['name'] == 'get' and n['callee'].get('classq', '') in ('std::unique_ptr', 'std::shared_ptr', 'std::__uniq_ptr_impl') \
            and n.get('obj') is not None:
        return as_new(f, n['obj'], depth + 1)
    if n['k'] in ('CallExpr', 'CXXMemberCallExpr') and 'callee' in n:
        w = alloc_wrapper(f.prog, n['callee']['usr'])
        if w:
            g, nn = w
            sp = None
            if nn.get('array') and 'arrsize' in nn:
                sp = P.poly(g, nn['arrsize'], Renderer(g))
                # substitute the wrapper's parameters by the call's arguments
                R = Renderer(f)
                args = f.call_args(n)
                out = {}
                for mono, c in sp.items():
                    term = P.const(c)
                    for a in mono:
                        m = __import__('re').match(r'^arg(\d+)$', a)
                        if m and int(m.group(1)) < len(args):
                            term = P.mul(term, P.poly(f, args[int(m.group(1))], R))
                        else:
                            term = P.mul(term, {(a,): 1})
                    out = P.add(out, term)
                sp = out
            return {'array': bool(nn.get('array')), 'size': sp, 'where': g.loc(nn['id'])}
    return None


def _reassigned(f, vid):
    for n in f.nodes:
        if (n['k'] == 'BinaryOperator' and n['op'] == '=') or (n['k'] == 'CXXOperatorCallExpr' and n.get('op') == '='):
            t = n['ch'][0] if n['k'] == 'BinaryOperator' else n['args'][0]
            tn = f.nodes[f.strip(t, 'all')]
            if tn['k'] == 'DeclRefExpr' and tn['decl'].get('id') == vid:
                return True
        if n['k'] == 'CXXMemberCallExpr' and n['callee']['name'] in ('reset', 'swap') and n.get('obj') is not None:
            tn = f.nodes[f.strip(n['obj'], 'all')]
            if tn['k'] == 'DeclRefExpr' and tn['decl'].get('id') == vid:
                return True
    return False


def contains_new(f, i):
    if as_new(f, i) is not None:
        return True
    for x in f.descendants(i):
        n = f.nodes[x]
        if n['k'] == 'CXXNewExpr':
            return True
        if n['k'] == 'CallExpr' and n.get('callee', {}).get('qname') in ('std::make_shared', 'std::make_unique'):
            return True
        if n['k'] in ('CallExpr', 'CXXMemberCallExpr') and 'callee' in n and alloc_wrapper(f.prog, n['callee']['usr']):
            return True
    return False


def constant_member(prog, cls, field):
    """integer constant K such that every user constructor of cls initialises `field` to K and nothing
    else writes it; else None"""
    vals = set()
    ctors = [f for f in prog.repo_funcs() if f.cls == cls and f.kind == 'ctor' and not f.implicit and not f.rec.get('copy') and not f.rec.get('move')]
    if not ctors:
        return None
    for g, nid, rhs in field_writes(prog, cls, field):
        if g.implicit:
            continue
        if g.kind != 'ctor' or rhs is None:
            return None
        n = g.nodes[g.strip(rhs, 'all')]
        if 'cv' not in n:
            return None
        vals.add(int(n['cv']))
    written_in = {g.usr for g, _, _ in field_writes(prog, cls, field)}
    if len(vals) != 1 or any(c.usr not in written_in for c in ctors):
        return None
    return vals.pop()


def const_subst(prog, cls, poly):
    """replace atoms this.X by K where X is a constant member of cls (see constant_member)"""
    import poly as P
    if not cls or poly is None:
        return poly
    out = {}
    for mono, c in poly.items():
        term = P.const(c)
        for a in mono:
            mm = re.match(r'^this\.(\w+)$', a)
            kc = constant_member(prog, cls, mm.group(1)) if mm else None
            term = P.mul(term, P.const(kc) if kc is not None else {(a,): 1})
        out = P.add(out, term)
    return out
